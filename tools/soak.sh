#!/bin/bash
# Thorough tier of every ready check, one after the other (each uses all cores). Usage: tools/soak.sh [budget_s]
cd "$(dirname "$0")/.."
B="${1:-300}"
rc=0
for id in $(cat tools/ready.txt); do
  echo "=== $id (budget ${B}s) $(date +%T)"
  VERIF_SEED="${VERIF_SEED:-7}" bin/check "$id" --tier thorough --budget "$B" --no-evidence | tail -4
  r=${PIPESTATUS[0]}; [ "$r" != 0 ] && rc=$r
done
exit $rc
