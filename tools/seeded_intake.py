#!/usr/bin/env python3
"""Intake of an independently seeded breaking change (written by a sub-agent in a scratch worktree):
  tools/seeded_intake.py <PROP> <worktree> <name> [--checks C06,C03] [--tier quick]
1. demo.py exits 0 on /repo and 1 on the worktree;  2. patch.diff applies to a pristine copy of /repo;
3. pinned suite on the patched copy equals the baseline stable set (run with xdist);  4. our check(s) run against the copy.
Writes /verif/seeded/<name>/{patch.diff,demo.py,NOTES.md,meta.json}.  Scratch copies are removed.
"""
import json
import os
import shutil
import subprocess
import sys
import tempfile
import xml.etree.ElementTree as ET

ROOT = os.path.dirname(os.path.dirname(os.path.abspath(__file__)))
PY = "/venv/bin/python"


def sh(cmd, **kw):
    return subprocess.run(cmd, capture_output=True, text=True, **kw)


def stable_set():
    return set(json.load(open("/root/.vp/BASELINE.json"))["stable_pass"])


def junit_passed(path):
    out = set()
    for tc in ET.parse(path).getroot().iter("testcase"):
        if not any(ch.tag in ("failure", "error", "skipped") for ch in tc):
            out.add(f"{tc.get('classname')}::{tc.get('name')}")
    return out


def main():
    prop, wt, name = sys.argv[1], sys.argv[2], sys.argv[3]
    checks = [prop]
    tier = "quick"
    skip_suite = "--skip-suite" in sys.argv
    for i, a in enumerate(sys.argv):
        if a == "--checks":
            checks = sys.argv[i + 1].split(",")
        if a == "--tier":
            tier = sys.argv[i + 1]
    sd = os.path.join(wt, "SEEDED")
    meta = dict(property=prop, source="independent sub-agent, given only the property text and a scratch worktree", ran=[])
    d0 = sh([PY, os.path.join(sd, "demo.py"), "/repo"], timeout=900)
    d1 = sh([PY, os.path.join(sd, "demo.py"), wt], timeout=900)
    meta["demo_exit_pristine"], meta["demo_exit_changed"] = d0.returncode, d1.returncode
    meta["ran"].append(f"demo.py /repo -> {d0.returncode}; demo.py <changed tree> -> {d1.returncode}")
    print(f"demo: pristine={d0.returncode} changed={d1.returncode}")
    td = tempfile.mkdtemp(prefix="verif-seed-", dir="/tmp")
    dst = os.path.join(td, "repo")
    sh(["rsync", "-a", "--exclude", ".git", "--exclude", "build", "--exclude", "__pycache__", "/repo/", dst + "/"])
    ap = sh(["patch", "-p1", "-s", "-d", dst, "-i", os.path.join(sd, "patch.diff")])
    meta["patch_applies"] = ap.returncode == 0
    print("patch applies:", ap.returncode == 0, ap.stdout[-300:], ap.stderr[-300:])
    try:
        if ap.returncode == 0 and not skip_suite:
            jx = os.path.join(td, "junit.xml")
            t = sh([PY, "-m", "pytest", "-q", "-p", "no:cacheprovider", "--timeout=900", "--continue-on-collection-errors",
                    "-n", "6", f"--junitxml={jx}"], cwd=dst, timeout=3000,
                   env=dict(os.environ, OMP_NUM_THREADS="1", OPENBLAS_NUM_THREADS="1", MPLBACKEND="Agg"))
            passed = junit_passed(jx)
            missing = sorted(stable_set() - passed)
            meta["pinned_suite_missing_from_stable_set"] = missing
            meta["ran"].append(f"pinned suite on patched copy (pytest -n 6): {len(passed)} passed, stable tests missing: {len(missing)}")
            print("suite: passed", len(passed), "stable missing", missing[:5])
        meta["checks"] = {}
        for c in checks:
            cmd = [os.path.join(ROOT, "bin", "check"), c, "--tier", tier, "--no-evidence"]
            if tier == "thorough":
                cmd += ["--budget", "180"]
            r = sh(cmd, env=dict(os.environ, VERIF_REPO=dst, VERIF_SHRINK_S="10"), timeout=3000)
            vl = [l for l in r.stdout.splitlines() if l.startswith("  class=")]
            meta["checks"][c] = dict(rc=r.returncode, tier=tier, first=vl[0][:300] if vl else "")
            meta["ran"].append(f"VERIF_REPO=<patched copy> bin/check {c} --tier {tier} -> exit {r.returncode}")
            print(f"check {c} ({tier}): rc={r.returncode} {vl[0][:200] if vl else ''}")
        meta["detected_by"] = [c for c, v in meta["checks"].items() if v["rc"] == 1]
    finally:
        shutil.rmtree(td, ignore_errors=True)
    out = os.path.join(ROOT, "seeded", name)
    os.makedirs(out, exist_ok=True)
    for f in ("patch.diff", "demo.py", "NOTES.md"):
        if os.path.exists(os.path.join(sd, f)):
            shutil.copy(os.path.join(sd, f), os.path.join(out, f))
    old = {}
    mp = os.path.join(out, "meta.json")
    if os.path.exists(mp):
        old = json.load(open(mp))
        for k in ("needs", "pinned_suite_missing_from_stable_set"):
            if k in old and k not in meta:
                meta[k] = old[k]
        if skip_suite and "ran" in old:
            meta["ran"] = [r for r in old["ran"] if "pinned suite" in r] + meta["ran"]
    json.dump(meta, open(mp, "w"), indent=1)
    print("written", out)


if __name__ == "__main__":
    main()
