#!/usr/bin/env python3
"""Re-confirm every kept seeded change from its files under /verif/seeded/<name>/ (no worktree needed):
   scratch copy of /repo under /tmp + patch.diff;  demo.py on /repo (exit 0) and on the copy (exit 1);
   [--suite] pinned suite on the copy vs BASELINE stable set;  our checks (meta['run_checks'] or the property's check).
usage: tools/seeded_recheck.py [names...] [--suite] [--tier quick]
"""
import json
import os
import shutil
import subprocess
import sys
import tempfile

sys.path.insert(0, os.path.dirname(os.path.abspath(__file__)))
from seeded_intake import junit_passed, stable_set, sh, PY, ROOT  # noqa: E402

NEEDS = {
    "C02-1": "a DyadCarrier (container) sensitivity handed as the same object to two input signals by one module, one of which is also consumed by an earlier module, both paths seeded (copy.copy instead of deepcopy shares the u/v lists)",
    "C03-1": "sparse EigenSolve with eigenvector seeds; two response cycles on different designs; within the later cycle a first sensitivity pass that leaves mode j unseeded and, after reset, a second pass that seeds mode j (stale per-mode factorisation)",
    "C04-1": "SoftMinMax: a second sensitivity() after the same response() (in-place scaling of cached softmax weights)",
    "C05-1": "LDAWrapper (not a bare solver): complex non-symmetric non-Hermitian matrix with a decoupled dof whose diagonal entry has non-zero imaginary part, solved with trans T or H (cached diagonal lacks the conjugate) -- violates C06/C07 rather than C05 as stated",
    "C06-1": "complex matrix neither symmetric nor Hermitian, decoupled dof with complex diagonal, trans T/H (diagonal cached per update, conjugate missing)",
    "C07-1": "same LinSolve instance evaluated again with a sparse matrix of identical indptr/indices where a dof that was decoupled only by *stored zeros* is now coupled (decoupled-dof detection cached per sparsity structure)",
    "C10-1": "all design-variable signals hold integer-typed states and xmin/xmax/move are given per signal with non-integer values (np.zeros_like on an integer vector truncates them)",
    "C11-1": "sparse generalised EigenSolve with non-zero sigma: second or later response() after B changed (sigma*B cached)",
    "C15-1": "contract_multi, then in-place zeroing of rows/columns, then contract_multi again on the same carrier (stale stacked U/V cache)",
    "C16-1": "the same AggActiveSet object called twice on same-shape data with lower_amt>0 or upper_amt<1 and no value band (cached mask never reset)",
    "C17-1": "a scalar (one-element) variable signal that is not the first signal: xnew[i] written instead of xnew[cumlens[i]]",
    "C18-1": "add_sensitivity through a slice whose index tuple has a slice/Ellipsis/integer before an integer array (numpy returns a view of a temporary: .base is not None although it is a copy)",
    "C19-1": "the perturbed input is a SignalSlice with an advanced (integer-array / mask) index: the restore never reaches the base signal for the last perturbed entry",
    "C02-2": "a nested Network that is extended with inner.append(...) after the outer network was built (the outer network's signal snapshot is stale), then a second response/reset/seed/sensitivity cycle",
    "C03-2": "a reused LinSolve/SystemOfEquations (LDAWrapper) whose first matrix has a fully decoupled dof that becomes coupled in a later same-size matrix (decoupled-dof partition detected once per matrix shape)",
    "C04-2": "SystemOfEquations with a seed on output b only, on a sensitivity() call that is not the first since the last response() (adjoint-load buffer not re-initialised)",
    "C05-2": "one SolverDenseCholesky object re-used via update(): positive-definite matrix first, later a Hermitian indefinite one (success flag stays True, stale factor used)",
    "C06-2": "a block right-hand side in which one column is much smaller than the others (residual normalised by the whole block's norm)",
    "C07-2": "StaticCondensation with a non-symmetric matrix whose free-free block alone is symmetric, or a symmetric first matrix followed by a non-symmetric one (A_mf replaced by A_fm^H when the inner LinSolve's Hermitian flag is set)",
    "C10-2": "two array-valued design-variable signals whose float64 initial states are the same array object (in-place write-back)",
    "C11-2": "dense symmetric problem with an eigenvector whose mean entry is bit-exactly zero (np.sign(0) = 0 zeroes the vector)",
    "C15-2": "a dyad added with v omitted (symmetric) followed by in-place zeroing of rows only or columns only (u and v share storage)",
    "C16-2": "PNorm with p < 0 on positive data where (max/min)^|p| overflows although every |x_i|^p is representable (normalisation by the maximum)",
    "C17-2": "two consecutive reachable-volume iterations whose Lagrange multipliers differ by more than 10x (warm-started bisection interval + guard that never fires)",
    "C18-2": "reset() of a slice whose index tuple has an integer array after a slice/Ellipsis (.base is not None although it is a copy)",
    "C19-2": "relative_dx=True with a complex perturbed input and a non-holomorphic map (scale factor x0 instead of |x0| rotates the perturbation direction)",
    "C20-2": "ScalarToFile logging a non-C-contiguous array view (values in memory order, header names in C order) -- re-based onto the repaired tree",
    "C02-3": "Network.sensitivity() returns early when all of the network's *cached* sig_out are unseeded: an inner network extended after nesting with only the late output seeded, or an adjoint source module without outputs",
    "C03-3": "AggActiveSet with amount-based criteria only (no value band) keeps its all-true start mask between calls: second response on data that ranks differently",
    "C04-3": "FilterConv skips the backpropagation when np.allclose(seed, 0) (absolute 1e-8): seeds of magnitude <= 1e-8 give exactly zero -- linearity at small scale",
    "C06-3": "adjoint matrix A^H cached on first use and never invalidated by update(): non-symmetric matrix, T/H solve, update, then two or more T/H solves",
    "C07-3": "LinSolve/SystemOfEquations constructed with symmetric=True only (no hermitian flag) on a dense complex-symmetric matrix: treated as Hermitian",
    "C10-3": "alfa/beta computed from the asymptote offsets of the previous iteration: a variable whose offset shrinks while move >= asydecr*offset_old gets alfa <= low / beta >= upp",
    "C11-3": "generalised problem with auto-detected hermitian flag, A symmetric, B positive definite but non-symmetric (flag taken from A only)",
    "C16-3": "KSFunction as soft minimum (rho < 0) on wide-range data with |rho|*(max-min) > ~709: log-sum-exp shift by the maximum overflows",
    "C18-3": "Signal constructed with an initial sensitivity (keep_alloc True) and reset(keep_alloc=False): the explicit False is ignored",
    "C20-3": "2D domain, node-sized block-vector with 2 components per node and at least 2 blocks: only block 0 is padded to three components",
    "C02-4": "a Network built with print_timing enabled (True or a numeric threshold) holding modules that depend on each other: the timed branch iterates self.mods (forward order) also for sensitivity()",
    "C03-4": "SystemOfEquations: on one response(), a backward pass seeding b, reset, then a pass seeding only x (prescribed part of the adjoint vector keeps the old seed)",
    "C04-4": "LDAWrapper caches A^H (never invalidated): LinSolve with a non-symmetric matrix, response/sensitivity, second response with another matrix, then two or more adjoint solves",
    "C05-4": "one CG object: solve(trans='H'), update(A2), solve(trans='H') again (A^H cached, never invalidated)",
    "C06-4": "solve(B, x0=X0) with a block right-hand side on an empty database where at least one column needs no inner solve (zero column) and the inner solver uses x0 (CG): the unmasked initial guess has the wrong number of columns",
    "C07-4": "the same Inverse instance evaluated again with a matrix that is element-wise within 1e-8 + 1e-5*|A_prev| of the previous one (np.allclose change detector): tiny-valued matrices or relative updates below 1e-5",
    "C10-4": "step-size stopping test without scaling by the variable ranges: per-signal/per-variable bounds of very different width with the wide variable nearly stationary -> stops after 1-3 iterations far from the optimum",
    "C11-4": "Hermitian problems normalised with vdot (q^H B q = 1 instead of the bilinear q^T B q = 1): complex Hermitian A and/or B",
    "C15-4": ".imag of a carrier holding a dyad with real u and complex v (helper looks at u only)",
    "C16-4": "lower_amt / upper_amt entries removed by threshold value instead of by count: tied values at the cut position",
    "C17-4": "xmin and/or xmax passed as a float64 array with one entry per variable (np.asarray returns the caller's array; out= writes tighten the bounds every iteration)",
    "C18-4": "the first contribution to a signal is a 0-d numpy array (aliased instead of copied), then mutated by the caller / added to a second signal",
    "C19-4": "use_df given and a complex-valued selected output: an imaginary part is added to the caller's seed",
    "C20-4": "the ScalarToFile log file already exists when a new instance makes its first call (appended instead of truncated)",
    "C02-5": "a module input that is a SignalSlice of a signal with ndim >= 2 indexed with a basic slice followed by an index array (X[:, [0, 3]]): the write-back is skipped because .base is not None although the slice is a copy",
    "C03-5": "one dense LinSolve (SolverDenseCholesky) whose Cholesky factorisation fails for one matrix (LDL fallback) and succeeds for a later one: the success flag is never set back, the stale LDL factors answer",
    "C04-5": "ElementOperation / Strain / Stress / ElementAverage: sensitivity() evaluated more than once since the last Module.reset() (work array accumulates across calls)",
    "C05-5": "auto_determine_solver(A, issymmetric=True) without ishermitian on a dense complex symmetric non-Hermitian matrix (hermitian flag copied from the symmetry flag)",
    "C06-5": "a block right-hand side in which a column answered from the database (in the span, or zero) precedes a new column: the pair stored for the new column takes the wrong column of the remaining right-hand side",
    "C07-5": "one LinSolve / SystemOfEquations / StaticCondensation with dense Hermitian matrices: a not positive definite matrix (Cholesky fails, LDL fallback) followed by a positive definite one",
    "C10-5": "a single 1-D design-variable signal whose reset() zeroes its sensitivity in place (Signal constructed with a sensitivity, or a SignalSlice) and at least one constraint: all gradient rows alias one buffer",
    "C11-5": "dense EigenSolve whose input signals hold Fortran-ordered (or transposed-view) arrays: LAPACK overwrites the caller's A and B",
    "C15-5": "B = c * A with the scalar on the left, then column zeroing B[:, cols] = 0 (or on A): v arrays shared between both carriers",
    "C16-5": "data whose spread is below np.isclose's tolerances (1e-9*(2+rand), 1+1e-7*rand, 1e6+rand): the active set is silently skipped",
    "C17-5": "l2init / l1l2tol > 2**52 with a multiplier far below np.spacing(l2init): objective of magnitude 1e-14 with l1l2tol=1e-20, or l2init=1e22",
    "C18-5": "add_sensitivity through a slice of a slice while the root signal has no sensitivity yet (first contribution after construction or root.reset())",
    "C19-5": "finite_difference on an input whose state is a non-C-contiguous array (Fortran-ordered, transposed view, reversed 1-D view) with a dense sensitivity",
    "C20-5": "WriteToVTI with an extension-less saveto, overwrite=False and at least two calls: every iteration lands in the same <stem>.vti",
    "C02-6": "a Signal constructed with an ndarray sensitivity (allocation kept on reset), after a reset(), whose buffer is filled through a SignalSlice consumer or a direct seed before a whole-signal contribution arrives (first term copied over the buffer instead of added)",
    "C03-6": "OverhangFilter fed directly by a caller-owned array that is updated IN PLACE (x[:] = ..., x += ...) between two response() calls (unchanged-input shortcut compares against a reference, not a copy)",
    "C04-6": "sparse EigenSolve with both outputs seeded in one sensitivity() call where the eigenvector seed has an all-zero column for a mode whose eigenvalue seed is non-zero",
    "C05-6": "a Fortran-ordered (or transposed-view) dense matrix handed to SolverDenseLU (directly, via auto_determine_solver or LDAWrapper): lu(overwrite_a=True) factorises inside the caller's buffer",
    "C06-6": "two live LDAWrapper objects used alternately (storage lists became class attributes shared by all instances)",
    "C07-6": "SystemOfEquations constructed with only one of free= / prescribed= whose index array is not ascending, values on that set not all equal",
    "C10-6": "a size-1 design-variable signal listed after at least one multi-entry array signal (written back from xval[i] instead of xval[cumlens[i]])",
    "C11-6": "sparse complex Hermitian problem with the default sorting and wanted eigenvalues on both sides of the shift (eigsh delegates to eigs: values ordered by distance to sigma, sort skipped)",
    "C15-6": "a complex u or v that is non-zero but has sum(x_i**2) == 0 exactly ([1, 1j, 0], [1+1j, 1-1j]): dropped as a 'zero vector'",
    "C16-6": "an aggregation module with both AggScaling and an AggActiveSet that removes entries on the side of the scaled extreme: scaling applied to the whole vector instead of the active entries",
    "C17-6": "two or more variable signals whose initial state is the same array object, or a SignalSlice variable with an index array (in-place write-back)",
    "C18-6": "a complex base state without sensitivity whose first sensitivity operation is an assignment through a slice (real-valued zero allocation)",
    "C19-6": "a perturbed input Signal created with a pre-allocated sensitivity (kept and zeroed in place by reset): stored analytical values alias that buffer",
    "C20-6": "a written array of more than 16384 float32 values (domains from about 131x127 elements, 3-component nodal vectors on 22x19x17): base64 encoded in 64 KiB chunks",
    "C20-1": "scale != 1 and at least two writes with the same DomainDefinition (element_size view scaled in place): Spacing wrong from the second file on",
}


def main():
    names = [a for a in sys.argv[1:] if not a.startswith("--")]
    suite = "--suite" in sys.argv
    tier = "quick"
    sd = os.path.join(ROOT, "seeded")
    for name in sorted(os.listdir(sd)):
        if names and name not in names:
            continue
        d = os.path.join(sd, name)
        mp = os.path.join(d, "meta.json")
        meta = json.load(open(mp))
        meta["needs"] = NEEDS.get(name, meta.get("needs", ""))
        td = tempfile.mkdtemp(prefix="verif-seed-", dir="/tmp")
        dst = os.path.join(td, "repo")
        try:
            sh(["rsync", "-a", "--exclude", ".git", "--exclude", "build", "--exclude", "__pycache__", "/repo/", dst + "/"])
            ap = sh(["patch", "-p1", "-s", "-d", dst, "-i", os.path.join(d, "patch.diff")])
            meta["patch_applies"] = ap.returncode == 0
            # demos are the sub-agents' own programs; some use unseeded ARPACK start vectors, so the pristine run is repeated
            # (up to 3 times) when it does not exit 0 at once and all exit codes are recorded
            p_codes = []
            for _ in range(3):
                d0 = sh([PY, os.path.join(d, "demo.py"), "/repo"], timeout=1800)
                p_codes.append(d0.returncode)
                if d0.returncode == 0:
                    break
            d1 = sh([PY, os.path.join(d, "demo.py"), dst], timeout=1800)
            meta["demo_exit_pristine"], meta["demo_exit_changed"] = d0.returncode, d1.returncode
            meta["demo_exit_pristine_all_runs"] = p_codes
            ran = [f"demo.py /repo -> {p_codes}; demo.py <patched copy> -> {d1.returncode}"]
            if suite:
                jx = os.path.join(td, "junit.xml")
                sh([PY, "-m", "pytest", "-q", "-p", "no:cacheprovider", "--timeout=900", "--continue-on-collection-errors", "-n", "8",
                    f"--junitxml={jx}"], cwd=dst, timeout=3600,
                   env=dict(os.environ, OMP_NUM_THREADS="1", OPENBLAS_NUM_THREADS="1", MPLBACKEND="Agg"))
                passed = junit_passed(jx)
                missing = sorted(stable_set() - passed)
                meta["pinned_suite_missing_from_stable_set"] = missing
                meta["pinned_suite_passed"] = len(passed)
            if "pinned_suite_passed" in meta:
                ran.append(f"pinned suite on the patched copy (pytest -n 8, junit compared with BASELINE stable_pass): {meta['pinned_suite_passed']} passed, "
                           f"stable tests missing: {len(meta.get('pinned_suite_missing_from_stable_set', []))}")
            checks = meta.get("run_checks") or list(meta.get("checks", {}).keys()) or [meta["property"]]
            meta["checks"] = {}
            for c in checks:
                r = sh([os.path.join(ROOT, "bin", "check"), c, "--tier", tier, "--no-evidence"],
                       env=dict(os.environ, VERIF_REPO=dst, VERIF_SHRINK_S="10"), timeout=3600)
                vl = [l for l in r.stdout.splitlines() if l.startswith("  class=")]
                meta["checks"][c] = dict(rc=r.returncode, tier=tier, first=vl[0][:300] if vl else "")
                ran.append(f"VERIF_REPO=<patched copy> bin/check {c} --tier {tier} -> exit {r.returncode}")
            meta["detected_by"] = [c for c, v in meta["checks"].items() if v["rc"] == 1]
            meta["ran"] = ran
            json.dump(meta, open(mp, "w"), indent=1)
            print(name, "demo", d0.returncode, d1.returncode, "suite-missing", meta.get("pinned_suite_missing_from_stable_set", "n/a"),
                  "detected_by", meta["detected_by"], flush=True)
        finally:
            shutil.rmtree(td, ignore_errors=True)


if __name__ == "__main__":
    main()
