#!/usr/bin/env python3
"""Create /verif/mutants/<name>.patch from a textual replacement in a file of /repo (the repo is not modified).
usage: mkmutant.py <name> <relative file> <<< JSON {"old": "...", "new": "..."}   (or: python API make(name, file, old, new))
"""
import difflib
import os
import sys

ROOT = os.path.dirname(os.path.dirname(os.path.abspath(__file__)))
REPO = os.environ.get("VERIF_REPO", "/repo")


def make(name, rel, old, new, count=1):
    src = open(os.path.join(REPO, rel)).read()
    assert src.count(old) >= 1, f"{name}: pattern not found in {rel}"
    assert count is None or src.count(old) == count, f"{name}: pattern occurs {src.count(old)} times in {rel}"
    dst = src.replace(old, new)
    diff = difflib.unified_diff(src.splitlines(True), dst.splitlines(True), "a/" + rel, "b/" + rel)
    out = os.path.join(ROOT, "mutants", name + ".patch")
    with open(out, "w") as f:
        f.writelines(diff)
    return out
