#!/usr/bin/env python3
"""Writes /verif/MANIFEST.json from the table below (only checks whose module exists are claimed)."""
import json
import os
import subprocess

ROOT = os.path.dirname(os.path.dirname(os.path.abspath(__file__)))

TECH = "deterministic simulation with fault injection"

CHECKS = {
    "C02": dict(
        text="Seeded search over generated module programs (random DAGs of exact-Jacobian harness modules, slices, shared "
             "signals, nested networks) x uniformly drawn topological orders x seed order x response/seed/sensitivity/reset "
             "cycles, with set-order permutation and clock jumps injected; oracle = independent reference executor "
             "(dense total Jacobian). Exploration: a clean batch is evidence for the sampled programs and schedules, not a proof.",
        note="Trusted: the harness modules' own Jacobians (affine / tanh / product maps written in the check) and NumPy. "
             "Library modules' Jacobians are outside this check (C01, not applicable).",
        tech=TECH + ": seeded schedule search (topological orders, cycles, seed order) with a reference-executor oracle", ref="DESIGN.md §4 C02"),
    "C03": dict(
        text="Seeded search over operation histories {set input, response, seed, sensitivity, reset} with deliberately messy "
             "prefixes on long-lived networks of real caching modules (LinSolve+LDAS, CG, SystemOfEquations, StaticCondensation, "
             "EigenSolve, OverhangFilter, aggregation), 1-3 networks interleaved by the scheduler, faults injected (forced "
             "Cholesky failure, varied ARPACK start vectors, clock jumps); oracle = freshly constructed twin evaluated once.",
        note="Trusted: a fresh twin is correct for a single evaluation (errors common to subject and twin are invisible: that is C01/C07). "
             "Matrix class per module is fixed (construction-time contract).",
        tech=TECH + ": history search with fresh-twin refinement oracle", ref="DESIGN.md §4 C03"),
    "C04": dict(
        text="Seeded search over seed/sensitivity/reset/response histories on one real library module at a time (module zoo with "
             "seeded options); purely metamorphic oracle: linearity in the seed, k calls add k times, bitwise state snapshots.",
        note="Trusted: NumPy arithmetic for the metamorphic relations; tolerance 1e-9 (1e-6 behind iterative solvers).",
        tech=TECH + ": history search with metamorphic (linearity/additivity/immutability) oracle", ref="DESIGN.md §4 C04"),
    "C05": dict(
        text="State/fault part of the property: seeded update/solve histories on each solver object with forced and natural "
             "Cholesky failure (LDL fallback and switch-back), CG restart/tolerance/initial-guess knobs, preconditioner knobs "
             "and nested multigrid; oracle = residual of the requested (N/T/H) system of the *current* matrix, shape and dtype kind. "
             "The quantifier over matrices is sampled by the workload generator (diagonally dominant / FE matrices).",
        note="Trusted: dense NumPy residual evaluation. Pardiso/CHOLMOD/UMFPACK are not installed and never run. Documented "
             "limitations excluded (complex rhs with real SuperLU, SOR with 1-D rhs, zero rhs handed directly to CG).",
        tech=TECH + ": update/solve history search with injected factorisation failures", ref="DESIGN.md §4 C05"),
    "C06": dict(
        text="Seeded search over update()/solve() histories on real LDAWrapper objects around real inner solvers wrapped by a "
             "counting delegate, with forced Cholesky failure and an inexact inner solver as fault kinds, two wrappers interleaved; "
             "single-copy reference model decides transparency (residual against the current matrix, shape, dtype, no spurious "
             "exception) and reuse (inner-solver column count). Quick tier enumerates all 64 off-diagonal patterns for n=3, "
             "thorough additionally all 4096 for n=4.",
        note="Trusted: dense NumPy residual / least-squares span test. Matrix class fixed per wrapper; reuse judged within one trans "
             "mode and for homogeneous dtypes only (documented LDAS behaviour).",
        tech=TECH + ": history search against a single-copy reference model with call-count accounting", ref="DESIGN.md §4 C06"),
    "C07": dict(
        text="State/fault part: seeded response histories on long-lived LinSolve / Inverse / SystemOfEquations / StaticCondensation "
             "instances (matrix values and pattern, right-hand sides, dof partitions, solver overrides change between calls; "
             "adjoint cycles in between), forced Cholesky failure, two instances interleaved; oracle = the defining equations at every response.",
        note="Trusted: dense NumPy evaluation of the defining equations. Matrix quantifier sampled.",
        tech=TECH + ": response-history search with defining-equation oracle", ref="DESIGN.md §4 C07"),
    "C10": dict(
        text="Every iteration of simulated MMA runs (real minimize_mma/mmasub/subsolv) against generated convex environments "
             "with known optimum; subsolv observed through a spy patched from outside; per-iteration invariants (bounds, move "
             "limit, asymptotes, approximation value/gradient, KKT residual, write-back) and bounded convergence.",
        note="Trusted: environment modules and reference optimum (scipy SLSQP / closed form). Runs cut by the wall cap are inconclusive.",
        tech=TECH + ": iteration-history simulation with per-step invariants and bounded liveness", ref="DESIGN.md §4 C10"),
    "C11": dict(
        text="State/nondeterminism part: response histories on long-lived EigenSolve instances with a different ARPACK start "
             "vector on every call (rng seam), cached shift-invert solver reused across matrices, adjoint cycles refreshing per-mode "
             "solvers; oracle = eigen-residual, B-normalisation, order, sign, spectrum vs dense reference.",
        note="Trusted: dense LAPACK reference spectrum. Matrix quantifier sampled.",
        tech=TECH + ": history search with start-vector injection and dense reference oracle", ref="DESIGN.md §4 C11"),
    "C15": dict(
        text="Seeded operation programs (depth <= 12) on a pool of DyadCarriers including in-place operations; dense-matrix model "
             "checked after every step for the result and for every other pool member (operand immutability, no shared storage).",
        note="Trusted: NumPy dense arithmetic.",
        tech=TECH + ": operation-program search against a dense reference model", ref="DESIGN.md §4 C15"),
    "C16": dict(
        text="Sequences of response() on aggregation modules with damped scaling and active sets, lengths n=1..12 exhaustively then "
             "sampled; oracle = reference recursion, analytic bounds and band mask at every step.",
        note="Trusted: closed-form bounds, NumPy. Arguments kept in the non-overflowing range.",
        tech=TECH + ": response-sequence simulation with reference recursion", ref="DESIGN.md §4 C16"),
    "C17": dict(
        text="Every design of simulated OC runs (real minimize_oc) against generated separable environments; per-iteration invariants "
             "(bounds, move limit, volume with plateau-aware reference, segment write-back) and convergence to the water-filling optimum.",
        note="Trusted: environment module, scalar root finder for the analytic optimum.",
        tech=TECH + ": iteration-history simulation with per-step invariants and bounded liveness", ref="DESIGN.md §4 C17"),
    "C18": dict(
        text="Seeded operation histories on Signal / SignalSlice trees with aliasing probes (same object added twice, caller mutation "
             "after add); plain-ndarray model checked after every step.",
        note="Trusted: NumPy indexing semantics.",
        tech=TECH + ": history search against an ndarray reference model", ref="DESIGN.md §4 C18"),
    "C19": dict(
        text="finite_difference on harness modules/networks with exact Jacobians, with a deliberately wrong Jacobian injected in a "
             "seeded fraction of runs (fault injection); global RNG and set order behind seams; oracle = independent adjoint, exact "
             "directional derivative, visit counts, state restoration.",
        note="Trusted: harness modules' exact Jacobians and second-derivative bounds.",
        tech=TECH + ": seeded runs with injected wrong sensitivities and RNG/set-order seams", ref="DESIGN.md §4 C19"),
    "C20": dict(
        text="Iteration histories of WriteToVTI / ScalarToFile on a simulated in-memory file system; independent VTI/table decoder; "
             "for each sampled history every write-call index is enumerated as the ENOSPC/short-write point (and open as EIO): a call "
             "that returns normally must have produced its complete file.",
        note="Trusted: XML/base64 decoder in the check; SimFS models open/write/close only.",
        tech=TECH + ": history simulation on a simulated file system with enumerated write-fault points", ref="DESIGN.md §4 C20",
        level="fault_enumeration"),
}

NA = {
    "C01": "stateless per-call adjoint identity of each module: no schedule, clock, fault or cross-call state in it (cross-call hazards are C03, seed handling is C04); deciding it needs numerical differentiation over generated inputs, i.e. property-based testing, not simulation",
    "C08": "AssembleGeneral precomputes index arrays and _response is a pure function of x; no state, nondeterminism or fault path for a simulator to explore",
    "C09": "FilterConv/DensityFilter precompute padding/H and apply them: pure functions of (options, x)",
    "C12": "element operators are pure gather/einsum/scatter functions of their input",
    "C13": "pure integer arithmetic and polynomials; the natural tool is bounded enumeration, not simulation",
    "C14": "forward overhang map and direction parsing are pure functions of (domain, direction, parameters, x); the stored smax is covered by C03/C04",
}

UNDER_CONSTRUCTION = "check not built yet in this round (planned, see DESIGN.md §4); not claimed until its check exists"


def main():
    fix_commits = []
    checks = []
    na = [dict(property_id=k, reason=v) for k, v in NA.items()]
    for pid, m in CHECKS.items():
        ready = open(os.path.join(ROOT, "tools", "ready.txt")).read().split()
        if pid not in ready or not os.path.exists(os.path.join(ROOT, "checks", pid.lower() + ".py")):
            na.append(dict(property_id=pid, reason=UNDER_CONSTRUCTION))
            continue
        checks.append(dict(
            property_id=pid,
            quick_cmd=f"timeout 900 bin/check {pid} --tier quick",
            thorough_cmd=f"timeout 7200 bin/check {pid} --tier thorough",
            evidence_file=f"/verif/evidence/{pid}.json",
            replay_cmd_template=f"bin/check {pid} --replay {{path}}",
            engine="sim",
            level_claimed=dict(category=m.get("level", "exploration"), text=m["text"], design_ref=m["ref"]),
            level_note=m["note"],
            technique=m["tech"],
        ))
    man = dict(
        version=1,
        setup_cmd="bin/setup",
        hooks=dict(
            guard="PYMOTO_VERIF",
            enable="no source hooks: all seams are installed by monkeypatching numpy/scipy/stdlib before `import pymoto` "
                   "(bin/check exports PYMOTO_VERIF=1 for uniformity; pyMOTO never reads it)",
            baseline_off_cmd="cd /repo && /venv/bin/python -m pytest -ra -q -p no:cacheprovider --timeout=900 "
                             "--continue-on-collection-errors --junitxml=/tmp/pymoto-baseline.junit.xml",
            source_commits=[],
            add_only=True,
        ),
        engines=[dict(name="sim", path="/verif/sim", serves_properties=[c["property_id"] for c in checks],
                      kind_free_text="seeded deterministic simulator (operation histories as data, seams for rng/clock/"
                                     "cholesky/file system/eig, delta-debugging shrinker, fresh-interpreter replay)")],
        checks=checks,
        not_applicable=sorted(na, key=lambda d: d["property_id"]),
        notes="Replay: bin/check <ID> --replay <file>. Known findings: /verif/known_findings.json (read-only at run time). "
              "Self-tests (not property checks): selftest/determinism.py, selftest/mutants.py.",
    )
    with open(os.path.join(ROOT, "MANIFEST.json"), "w") as f:
        json.dump(man, f, indent=1)
    print(f"MANIFEST.json: {len(checks)} checks, {len(na)} not applicable / not claimed")


if __name__ == "__main__":
    main()
