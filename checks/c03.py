"""C03 -- Results depend only on current inputs and seeds, never on call history.

System under test: 1-3 long-lived *subject* networks of real caching library modules (sim/templates.py), driven by
generated histories over {set input, response, seed output, sensitivity, reset} with deliberately messy prefixes; the
scheduler interleaves the clients.  Faults: forced Cholesky failure armed before responses of the subject only, a different
ARPACK start vector on every call, clock jumps under print_timing.
Oracle: a freshly constructed twin network evaluated once on the current inputs (states: after every response) and seeds
(sensitivities: at every checkpoint = first sensitivity() after a reset() with an up-to-date response).
"""
import contextlib
import io
import warnings

import numpy as np

from sim import seams, templates, zoo
from sim.core import sub_rng

PROP = "C03"
LEVEL = "exploration"
TIERS = {"quick": dict(runs=960, chunk=10), "thorough": dict(budget_s=480, max_runs=60_000, chunk=20)}
RUN_WALL_CAP = 120
RULE = ("one case = 1-3 clients, each a template network config (T1 filter->[overhang]->SIMP->stiffness->LinSolve->compliance with "
        "solver variants; T2 SystemOfEquations; T3 StaticCondensation; T4 sparse generalised EigenSolve; T5 stress->von Mises->"
        "aggregation with active set/undamped scaling->constraint Scaling; T6 complex dynamic stiffness; T7 thermo-mechanical chain; T8 dense "
        "Inverse + dense EigenSolve + ConcatSignal of a signal and its slice) "
        "with a generated history of 3-25 operations (messy: repeated responses, several seeds, double sensitivity, missing resets, "
        "leftover seeds, partial cycles) + a schedule interleaving the clients + fault ops; distinct = distinct abstract traces; "
        "non-trivial = at least one checkpoint was compared after a non-empty prefix (an earlier cycle on the same network)")
PROBES = ["checkpoint_after_messy_prefix", "adjoint_after_prior_adjoint_same_matrix", "cholesky_fallback_subject_only",
          "clients_interleaved", "sparse_eigen_seed_on_Q", "double_sensitivity_in_prefix", "missing_reset_in_prefix",
          "states_compared_after_response", "keep_alloc_source", "lda_disabled", "iterative_solver", "sensitivity_without_seed",
          "eig_compare_skipped_gap", "input_updated_in_place"]
FAULT_KINDS = ["cholesky_fail_forced", "arpack_start_vector_varied", "clock_jump"]
COMPONENTS = {"real": ["pymoto.Network and library modules: FilterConv, DensityFilter, OverhangFilter, AssembleStiffness/Mass/Poisson, "
                       "LinSolve (+LDAWrapper, SparseLU, CG+Jacobi/SOR/ILU/GeometricMultigrid, dense Cholesky/LU/LDL), SystemOfEquations, "
                       "StaticCondensation, EigenSolve (ARPACK), Stress, PNorm/KSFunction/SoftMinMax, AggActiveSet, AggScaling(undamped), "
                       "Scaling(constraint), EinSum, ElementAverage, ThermoMechanical, ComplexNorm/RealPart/ImagPart/MakeComplex"],
              "stub": ["harness modules SIMP, Densify, DynStiff, VonMises, Scale", "clock, Cholesky-failure and rng seams"]}
ASSUMPTIONS = ["the fresh twin is correct for a single evaluation (errors common to subject and twin are invisible here)",
               "documented memories are not placed in the networks (objective-mode Scaling, damped AggScaling, writers)",
               "eigenvectors and quantities depending on them are compared only across a relative spectral gap > 1e-6 and |mean| > 1e-8",
               "histories respect the response-before-sensitivity protocol (enforced at run time so that shrinking keeps it)"]
NOT_EXERCISED = ["MathGeneral / AutoMod (sympy / jax missing)"]

pym = None


def setup():
    global pym
    seams.install()
    pym = seams.import_pymoto()


def _client(rng, tier="quick"):
    cfg = templates.gen_cfg(rng)
    if cfg["solver"] == "cg_gmg" and cfg["t"] not in ("T1", "T5"):
        cfg["solver"] = "auto"
    if cfg["t"] == "T8":
        cfg.update(solver="auto", nx=min(cfg["nx"], 3), ny=min(cfg["ny"], 2))
    if cfg["t"] in ("T3", "T6") and cfg["solver"].startswith(("cg", "dense")):
        cfg["solver"] = "auto"
    if cfg["nload"] > 1 and cfg["solver"].startswith("cg"):
        cfg["lda"] = True     # an unused / unseeded load case gives an all-zero adjoint column: only LDAWrapper shields CG from it (documented)
    ops = []
    nops = int(rng.integers(3, 50 if tier == "thorough" else 26))
    messy = float(rng.choice([0.1, 0.3, 0.5]))
    p_fault = 0.5 if cfg["solver"] in ("dense_auto",) else 0.0
    # protocol automaton with messy deviations.  The regular cycle is the one of an optimisation loop with several responses
    # (what MMA.response does): set inputs -> response -> (seed -> sensitivity -> reset) x k -> next design
    state, left = "fresh", 0
    nxt = {"fresh": "set", "set": "resp", "resp": "seed", "seed": "sens", "sens": "reset"}
    while len(ops) < nops:
        r = rng.random()
        if r < messy:
            k = str(rng.choice(["set", "resp", "seed", "sens", "reset", "resp", "sens"]))
        else:
            if state == "reset":
                if left > 0:
                    left -= 1
                    k = "seed"
                else:
                    k = "set"
            else:
                k = nxt[state]
            if k == "resp":
                left = int(rng.integers(0, 3))
            state = k
        if k == "resp" and rng.random() < p_fault:
            ops.append(dict(op="fault", kind="cholesky_fail", arm=1))
        ops.append(dict(op=k, i=int(rng.integers(0, 8)), seed=int(rng.integers(1 << 30))))
    return dict(cfg=cfg, in0=int(rng.integers(1 << 30)), ops=ops)


def gen(rng, idx, tier):
    ncl = int(rng.choice([1, 1, 2, 3]))
    clients = [_client(rng, tier) for _ in range(ncl)]
    total = sum(len(c["ops"]) for c in clients)
    return dict(clients=clients, schedule=[int(s) for s in rng.integers(0, ncl, size=total)],
                clock=[float(x) for x in rng.choice([1e-3, -5.0, 100.0, 0.0], size=3)])


def simplify(case):
    import json
    from sim.core import jdump
    for ci, c in enumerate(case["clients"]):
        for key, val in (("filt", "none"), ("overhang", False), ("solver", "auto"), ("lda", True), ("nload", 1), ("print_timing", False),
                         ("keep_alloc", False), ("active", False), ("scaling", False), ("nx", 2), ("ny", 2)):
            if c["cfg"].get(key) != val and not (key in ("nx", "ny") and (c["cfg"]["t"] == "T4" or c["cfg"]["solver"] == "cg_gmg")):
                cc = json.loads(jdump(case))
                cc["clients"][ci]["cfg"][key] = val
                yield cc


class Client:
    def __init__(self, spec, ci):
        self.spec, self.ci = spec, ci
        self.T = templates.build(pym, spec["cfg"])
        self.cur_in = [spec["in0"] + j for j in range(len(self.T["sources"]))]
        self.apply_inputs(self.T, self.cur_in)
        self.stale = True           # inputs changed since the last response
        self.responded = False
        self.seeds = {}             # signal index -> seed (since last reset)
        self.sens_since_reset = 0
        self.cycles_done = 0        # completed sensitivity passes (prefix measure)
        self.adj_since_resp = 0
        self.pos = 0
        # an all-zero adjoint right-hand side handed directly to CG is a documented exclusion: no partial seeds there
        self.partial = not (spec["cfg"]["solver"].startswith("cg") and not spec["cfg"]["lda"])

    @staticmethod
    def apply_inputs(T, seeds):
        for (s, setter), sd in zip(T["sources"], seeds):
            s.state = setter(sd)


def seed_value(sig_state, seed, partial=True):
    rng = sub_rng(0x3A, seed)
    st = zoo.dense(sig_state)
    w = rng.uniform(-1, 1, st.shape)
    if np.iscomplexobj(st):
        w = w + 1j * rng.uniform(-1, 1, st.shape)
    if st.shape == ():
        return complex(w) if np.iscomplexobj(st) else float(w)
    # partial seeds *within* an output (an objective that looks at one mode / one load case / a few entries only):
    # zero blocks exercise the skip branches of the adjoint code
    m = seed % 4 if partial else 0
    if m in (1, 3) and w.ndim == 2 and w.shape[1] > 1:
        keep = (seed // 4) % w.shape[1]
        mask = np.zeros(w.shape[1], dtype=bool)
        mask[keep] = True
        w = w * mask[None, :]
    elif m == 2 and w.ndim == 1 and w.size > 1:
        keep = (seed // 4) % w.size
        mask = np.zeros(w.size, dtype=bool)
        mask[keep] = True
        w = w * mask
    return w


def cmp(a, b, tol):
    """ relative difference of two states/sensitivities (None == zero) """
    a, b = zoo.dense(a), zoo.dense(b)
    if a is None and b is None:
        return 0.0
    if a is None:
        a = np.zeros_like(b)
    if b is None:
        b = np.zeros_like(a)
    a, b = np.asarray(a), np.asarray(b)
    if a.shape != b.shape:
        return float("inf")
    if a.size == 0:
        return 0.0
    fin = np.isfinite(a) & np.isfinite(b)
    if not np.all(fin):
        # overflow (inf/nan) at the same positions in subject and twin is "equal"; anywhere else it is a difference
        if not np.array_equal(np.isfinite(a), np.isfinite(b)):
            return float("inf")
        a, b = a[fin], b[fin]
        if a.size == 0:
            return 0.0
    sc = max(float(np.max(np.abs(a))), float(np.max(np.abs(b))), 1e-6)     # absolute floor: numerical zeros are equal
    d = float(np.max(np.abs(a - b))) / sc
    return d if np.isfinite(d) else float("inf")


def run(case):
    warnings.simplefilter("ignore")
    np.seterr(all="ignore")
    seams.reset_run([3, case["clients"][0]["in0"]])
    seams.state["clock_script"] = list(case.get("clock", [1e-3]))
    res = dict(trace=[], nontrivial=False, steps=0, probes={}, faults={}, skipped={}, violations=[], margins={})
    P = res["probes"]

    def probe(k):
        P[k] = P.get(k, 0) + 1

    def skip(k):
        res["skipped"][k] = res["skipped"].get(k, 0) + 1

    def viol(clause, msg, at, cl, feats=()):
        cfg = cl.spec["cfg"]
        res["violations"].append(dict(cls=["C03", clause], msg=msg, at=at,
                                      features=[f"template={cfg['t']}", f"solver={cfg['solver']}", f"lda={cfg['lda']}"] + list(feats)))

    out = io.StringIO()
    try:
        with contextlib.redirect_stdout(out):
            clients = [Client(c, ci) for ci, c in enumerate(case["clients"])]
    except Exception as ex:  # noqa
        skip(f"construction_raises:{type(ex).__name__}")
        return res
    ncl = len(clients)
    res["trace"].append("T:" + ",".join(f"{c.spec['cfg']['t']}/{c.spec['cfg']['solver']}" for c in clients))
    if ncl > 1:
        probe("clients_interleaved")
    for c in clients:
        if c.spec["cfg"]["keep_alloc"]:
            probe("keep_alloc_source")
        if not c.spec["cfg"]["lda"]:
            probe("lda_disabled")
        if c.spec["cfg"]["solver"].startswith("cg"):
            probe("iterative_solver")
    sched = list(case.get("schedule", [])) or [0]
    step = 0
    detail = []

    def twin_eval(cl, with_sens):
        """ fresh identical network evaluated once on the current inputs (and seeds) """
        with contextlib.redirect_stdout(out):
            T2 = templates.build(pym, cl.spec["cfg"])
            Client.apply_inputs(T2, cl.cur_in)
            T2["net"].response()
            if with_sens:
                for si, sd in cl.seeds.items():
                    T2["sigs"][si].sensitivity = seed_value(T2["sigs"][si].state, sd, cl.partial)
                T2["net"].sensitivity()
        return T2

    def eig_guard(T):
        """ may eigenvectors be compared? (spectral gap and sign rule well defined) """
        if T["eig"] is None:
            return True
        lam = np.asarray(T["sigs"][T["eig"][0]].state)
        Q = np.asarray(T["sigs"][T["eig"][1]].state)
        lam_s = np.sort(np.real(lam))
        if len(lam_s) > 1 and np.min(np.diff(lam_s)) < 1e-6 * max(1.0, abs(lam_s[-1])):
            return False
        if np.min(np.abs(np.mean(np.real(Q), axis=0))) < 1e-8:
            return False
        return True

    while True:
        alive = [c for c in clients if c.pos < len(c.spec["ops"])]
        if not alive:
            break
        want = sched[step % len(sched)] % ncl
        step += 1
        cl = clients[want] if clients[want] in alive else alive[0]
        op = cl.spec["ops"][cl.pos]
        at = cl.pos
        cl.pos += 1
        res["steps"] += 1
        T = cl.T
        tag = f"{cl.ci}:{op['op']}"
        try:
            with contextlib.redirect_stdout(out):
                if op["op"] == "fault":
                    seams.state["chol_arm"] = int(op.get("arm", 1))
                    cl.fault_armed = True
                elif op["op"] == "set":
                    k = op["i"] % len(T["sources"])
                    cl.cur_in[k] = op["seed"]
                    new_ = T["sources"][k][1](op["seed"])
                    cur_ = T["sources"][k][0].state
                    if op["seed"] % 3 == 0 and isinstance(cur_, np.ndarray) and isinstance(new_, np.ndarray) and \
                            cur_.shape == new_.shape and cur_.dtype == new_.dtype and cur_.flags.writeable:
                        cur_[...] = new_        # the caller updates the design in place (x[:] = ..., x += ...): same array object
                        probe("input_updated_in_place")
                    else:
                        T["sources"][k][0].state = new_
                    cl.stale = True
                elif op["op"] == "resp":
                    c0 = seams.state["clock_reads"]
                    f0 = seams.state["chol_forced"]
                    T["net"].response()
                    seams.state["chol_arm"] = 0        # a fault armed for the subject never reaches the twin
                    if seams.state["chol_forced"] > f0:
                        probe("cholesky_fallback_subject_only")
                        res["faults"]["cholesky_fail_forced"] = res["faults"].get("cholesky_fail_forced", 0) + 1
                    if seams.state["clock_reads"] > c0:
                        res["faults"]["clock_jump"] = res["faults"].get("clock_jump", 0) + 1
                    cl.stale, cl.responded = False, True
                    cl.adj_since_resp = 0
                elif op["op"] == "seed":
                    if not cl.responded:
                        tag += "-skip"
                    else:
                        si = T["seedable"][op["i"] % len(T["seedable"])]
                        T["sigs"][si].sensitivity = seed_value(T["sigs"][si].state, op["seed"], cl.partial)
                        cl.seeds[si] = op["seed"]
                elif op["op"] == "sens":
                    if cl.stale or not cl.responded:
                        tag += "-skip-stale"           # protocol: no sensitivity on stale states
                    else:
                        before = None
                        if not cl.seeds:
                            before = [zoo.snapshot(s.sensitivity) for s in T["sigs"]]
                        T["net"].sensitivity()
                        cl.sens_since_reset += 1
                        if cl.sens_since_reset >= 2:
                            probe("double_sensitivity_in_prefix")
                        if before is not None:
                            probe("sensitivity_without_seed")
                            if [zoo.snapshot(s.sensitivity) for s in T["sigs"]] != before:
                                viol("sensitivity-without-seed", "sensitivity() without any seed changed a sensitivity", at, cl)
                                break
                elif op["op"] == "reset":
                    T["net"].reset()
                    cl.seeds = {}
                    cl.sens_since_reset = 0
                    left = [s for s in T["sigs"] if s.sensitivity is not None and np.any(zoo.dense(s.sensitivity) != 0)]
                    if left:
                        viol("reset-leftover", f"reset() left a sensitivity on signal '{left[0].tag}'", at, cl)
                        break
        except Exception as ex:  # noqa
            # would a fresh twin fed the same (current) inputs and seeds also raise?
            if T["eig"] is not None and op["op"] == "sens" and "singular" in str(ex).lower():
                # the eigenvector adjoint factorises A - lambda*B, singular by construction: whether SuperLU notices depends on
                # the rounding of lambda (i.e. on the ARPACK start vector), not on the history -> not judged here (C01 territory)
                skip("eigvec_adjoint_singular_shifted_system")
                break
            try:
                twin_eval(cl, with_sens=(op["op"] == "sens"))
                viol("exception", f"{op['op']} raised {type(ex).__name__}: {str(ex)[:200]} -- a fresh identical network evaluates "
                     f"the same inputs/seeds without error", at, cl, feats=[f"exc={type(ex).__name__}", f"op={op['op']}"])
            except Exception:  # noqa
                skip(f"raises_on_fresh_twin_too:{type(ex).__name__}")
            break
        res["trace"].append(tag)

        # ---- oracles
        if op["op"] == "resp":
            try:
                T2 = twin_eval(cl, with_sens=False)
            except Exception as ex:  # noqa
                skip(f"twin_raises:{type(ex).__name__}")
                break
            probe("states_compared_after_response")
            ok_eig = eig_guard(T) and eig_guard(T2)
            worst, wi = 0.0, None
            for i, (s1, s2) in enumerate(zip(T["sigs"], T2["sigs"])):
                if T["eig"] is not None and i == T["eig"][1] and not ok_eig:
                    skip("eigenvector_compare_skipped")
                    probe("eig_compare_skipped_gap")
                    continue
                d = cmp(s1.state, s2.state, T["tol"])
                if d > worst:
                    worst, wi = d, i
            res["margins"]["state_diff_over_tol"] = max(res["margins"].get("state_diff_over_tol", 0.0), worst / T["tol"])
            if worst > T["tol"]:
                viol("state", f"after response() the state of '{T['sigs'][wi].tag}' differs from a fresh twin by {worst:.2e} (rel), "
                     f"tolerance {T['tol']:.0e}; {cl.cycles_done} earlier sensitivity passes on this network", at, cl,
                     feats=[f"signal={T['sigs'][wi].tag}"])
                break
            detail.append(round(float(np.sum(np.abs(zoo.dense(T["sigs"][-1].state)))), 9))
        if op["op"] == "sens" and not tag.endswith("stale"):
            is_checkpoint = (cl.sens_since_reset == 1 and cl.seeds)
            if is_checkpoint:
                try:
                    T2 = twin_eval(cl, with_sens=True)
                except Exception as ex:  # noqa
                    skip(f"twin_raises:{type(ex).__name__}")
                    break
                ok_eig = eig_guard(T) and eig_guard(T2)
                if T["eig"] is not None and not ok_eig and T["eig"][1] in cl.seeds:
                    skip("checkpoint_skipped_eigenvector_seed_degenerate")
                    probe("eig_compare_skipped_gap")
                else:
                    if cl.cycles_done > 0:
                        probe("checkpoint_after_messy_prefix")
                        res["nontrivial"] = True
                    if cl.adj_since_resp > 0:
                        probe("adjoint_after_prior_adjoint_same_matrix")
                    if T["eig"] is not None and T["eig"][1] in cl.seeds:
                        probe("sparse_eigen_seed_on_Q")
                    worst, wi = 0.0, None
                    for i, (s1, s2) in enumerate(zip(T["sigs"], T2["sigs"])):
                        if i in cl.seeds:
                            continue           # the seed itself (the network may legitimately accumulate onto an intermediate seed)
                        d = cmp(s1.sensitivity, s2.sensitivity, T["tol"])
                        if d > worst:
                            worst, wi = d, i
                    res["margins"]["sens_diff_over_tol"] = max(res["margins"].get("sens_diff_over_tol", 0.0), worst / T["tol"])
                    if worst > T["tol"]:
                        viol("sensitivity", f"checkpoint: sensitivity of '{T['sigs'][wi].tag}' differs from a fresh twin by {worst:.2e} "
                             f"(rel), tolerance {T['tol']:.0e}; prefix: {cl.cycles_done} earlier sensitivity passes, "
                             f"{cl.adj_since_resp} since the last response", at, cl, feats=[f"signal={T['sigs'][wi].tag}"])
                        break
            cl.cycles_done += 1
            cl.adj_since_resp += 1
        if op["op"] == "sens" and cl.sens_since_reset >= 1 and not cl.seeds:
            pass
    if any(c.cycles_done > 0 and c.sens_since_reset > 1 for c in clients):
        probe("missing_reset_in_prefix")
    res["faults"]["arpack_start_vector_varied"] = seams.state["rng_none_calls"]
    res["detail"] = repr(detail)
    return res
