"""C10 -- MMA iterates respect bounds and move limits and converge on convex problems.

System under test: real pymoto.minimize_mma / MMA.response / MMA.mmasub / subsolv.  The *environment* is a harness network of
Module subclasses: a strictly convex objective (dense or separable quadratic, or sum c_i/x_i) and 1-4 convex constraints
g_j(x) <= 0 (linear, convex quadratic, sum c_i/x_i; each on all or on a subset of the variable signals), with the design
spread over 1-4 variable signals (Python floats, 1-element arrays, vectors).  True values and gradients come from the
environment's own NumPy formulas, the reference optimum from scipy.optimize SLSQP (several starts, tight tolerance).

Observation (simulated time = optimiser iterations):
  * `pymoto.common.mma.subsolv` is replaced from outside by a recording spy (arguments + return value of every subproblem);
    when the name does not exist the inner-interface clauses are counted as skipped and the outer invariants still run;
  * `fn_callback` snapshots the variable signals at every iteration; the states left after the call are the last design.

Clauses (class = [C10, clause]):
  bounds        xmin <= x_k <= xmax for every design the loop produces
  move          |x_{k+1} - x_k| <= move*(xmax-xmin) per variable (scalar / per-signal / per-variable specifications)
  asymptotes    low < alfa <= beta < upp at the subproblem interface (and low < x_k < upp)
  approx-convex P >= 0 and Q >= 0
  approx-value  sum_j P_ij/(upp_j-x_j) + Q_ij/(x_j-low_j) - b_i = g_i(x_k) for every constraint row (the objective row is
                only defined up to a constant)
  approx-grad   P_ij/(upp_j-x_j)^2 - Q_ij/(x_j-low_j)^2 = dg_i/dx_j(x_k) for every response row.  Both MMA versions satisfy
                this *exactly*: the 2007 regularisation adds 0.001*|dg| + 1e-5/dx to P and to Q alike, which cancels in the
                gradient and is absorbed by b in the value; the tolerance is therefore a rounding tolerance
  sub-interval  the returned x lies in [alfa, beta]
  sub-kkt       KKT residual of the returned (x, y, z, lam, xsi, eta, mu, zet, s), recomputed here with eps = 0, is at most
                20 * epsimin (the accuracy handed to subsolv) and all multipliers / slacks are non-negative
  write-back    at the next callback the variable signals hold exactly the segments of the returned vector, sizes kept
  liveness      within the iteration budget the objective gap closes to <= 1 % of the initial gap (floor: 5 % of 1+|f*|)
                and every constraint ends <= 1e-6 * scale (constraints are normalised to O(1)); a run cut off by maxit while
                it is still moving is allowed what its last step is worth to first order (2 |grad g| . |x_end - x_prev|)
  exception     minimize_mma raises on a well-posed convex problem

Cost control: a subproblem becomes slow once variables sit on their bounds.  A *deterministic* work budget (number of
numpy.linalg.norm calls while the optimiser runs, counted through a NumPy-level seam) ends such runs as inconclusive
(`skipped[work_cap]`); a real wall-clock cap is only the backstop (`skipped[wall_cap]`).  Invariants observed before the
cap still count.
"""
import contextlib
import io
import json
import sys
import warnings

import numpy as np

from sim import seams
from sim import core
from sim.core import sub_rng, jdump

PROP = "C10"
LEVEL = "exploration"
TIERS = {"quick": dict(runs=400, chunk=2), "thorough": dict(budget_s=480, max_runs=6000, chunk=2)}
RUN_WALL_CAP = 1200
CHUNK_WALL_CAP = 900
WORK_BUDGET = {"quick": 80_000, "thorough": 400_000}     # numpy.linalg.norm calls per run (deterministic)
INNER_WALL_CAP = 900.0                                    # seconds per run (pure backstop, real clock: never reached in practice, the deterministic work cap bounds a run)
RULE = ("one case = one minimize_mma run on a generated convex problem: 1-4 variable signals (float / 1-element array / "
        "vector, n <= 6 quick, n <= 8 thorough), objective dense-quadratic / separable-quadratic / sum c_i/x_i, 1-4 "
        "constraints (linear / convex quadratic / reciprocal, on all or a subset of the signals), xmin / xmax / move each "
        "scalar, per-signal or per-variable, start point random / on lower / on upper / mixed on bounds / feasible, MMA "
        "version 1987 / 2007, asyinit, asyincr, asydecr, albefa, epsimin, tolx, maxit, direct or concatenating network; "
        "distinct = distinct abstract traces (configuration classes + per-iteration outcome class: variable on bound, move "
        "limit active, asymptote widened / narrowed, Newton cap message); non-trivial = at least two subproblems were "
        "observed through the spy and the write-back of at least one of them was verified")
PROBES = ["variable_at_bound", "asymptote_decrease", "asymptote_increase", "active_move_limit", "per_variable_bounds",
          "per_signal_bounds", "per_variable_move", "per_signal_move", "float_signal", "arr1_signal", "vector_signal",
          "multi_signal", "response_without_signal", "start_on_bound", "infeasible_start", "converged_tolx", "maxit_reached",
          "newton_cap_message", "version_1987", "version_2007", "constraint_active_at_optimum", "bound_active_at_optimum",
          "liveness_judged", "concat_network", "spy_installed", "work_counter_seen", "integer_typed_start", "signals_share_initial_array", "variables_of_different_magnitude", "large_variables_start_converged", "variable_is_signal_slice", "variable_keeps_sensitivity_allocation", "maxit_reached_while_cycling"]
# observation-only counter (not a workload target): stopped_before_maxit_without_meeting_tolx
FAULT_KINDS = []
COMPONENTS = {"real": ["pymoto.minimize_mma", "pymoto.common.mma.MMA / mmasub / subsolv", "pymoto.Network / Module backpropagation",
                       "pymoto.utils._concatenate_to_array", "numpy.linalg.solve"],
              "stub": ["environment network (convex responses with exact gradients, harness code by design)",
                       "recording spy around subsolv (forwards every call)", "counting wrapper around numpy.linalg.norm"]}
ASSUMPTIONS = ["start points lie inside [xmin, xmax]; xmax - xmin > 0 for every variable",
               "problems are strictly feasible (Slater point known by construction) and scaled so that Lagrange multipliers "
               "stay far below the penalty c = 1000 of the elastic variables",
               "objective values stay >= 1 (the loop divides by |f|)",
               "albefa in [0.05, 0.4]: with albefa = 0 the interval would touch the asymptote by definition",
               "liveness is judged only for asyincr <= 1.2 and asydecr <= 0.7 (defaults and more conservative), after "
               "20 + log(0.01)/log(asydecr) iterations with enough travel, or when the loop stopped by its step criterion; "
               "the invariants are judged for every parameter choice",
               "a run that ends at maxit may still be in the limit cycle of the asymptote floor (amplitude <= 0.9 % of the range in "
               "variables whose derivatives vanish at the optimum; inherent to approximations whose curvature is proportional to "
               "|df/dx|): its constraint values are bounded by the first-order worth of the last step, not by 1e-6"]
NOT_EXERCISED = ["fault kinds: none apply (no I/O, no solver fallback, no randomness inside minimize_mma)",
                 "non-convex problems, a != 0 (min-max formulation), user supplied c vector"]

pym = None
mma_mod = None
_cls = {}
_S = dict(armed=False, count=0, budget=0, t0=0.0, handler=None, orig_subsolv=None, norm_installed=False)


class _Cap(BaseException):
    """ run ended as inconclusive (work budget or wall cap) """


class _Stop(BaseException):
    """ run stopped at its first violation """


# ------------------------------------------------------------------------------------------------ seams of this check
def _install_norm_counter():
    if _S["norm_installed"]:
        return
    _S["norm_installed"] = True
    orig = np.linalg.norm

    def norm(*a, **k):
        if _S["armed"]:
            _S["count"] += 1
            c = _S["count"]
            if c > _S["budget"]:
                _S["armed"] = False
                raise _Cap("work")
            if c % 2000 == 0 and core._real_perf() - _S["t0"] > INNER_WALL_CAP:
                _S["armed"] = False
                raise _Cap("wall")
        return orig(*a, **k)
    norm.__name__ = "norm"
    np.linalg.norm = norm


def _spy(*args, **kwargs):
    h = _S["handler"]
    if h is None:
        return _S["orig_subsolv"](*args, **kwargs)
    return h(args, kwargs)


def setup():
    global pym, mma_mod
    seams.install()
    pym = seams.import_pymoto()
    if _cls:
        return
    import importlib
    try:
        mma_mod = importlib.import_module("pymoto.common.mma")
    except Exception:  # noqa
        mma_mod = None
    if mma_mod is not None and hasattr(mma_mod, "subsolv") and callable(mma_mod.subsolv):
        _S["orig_subsolv"] = mma_mod.subsolv
        mma_mod.subsolv = _spy
    _install_norm_counter()

    class C10Resp(pym.Module):
        """ scalar response of the variables in `idx` (all other entries of the full design are irrelevant fillers) """
        def _prepare(self, resp, idx, filler):
            self.resp, self.idx, self.filler = resp, np.asarray(idx, dtype=int), filler

        def _response(self, *xs):
            self.shapes = [np.shape(x) for x in xs]
            xx = np.concatenate([np.asarray(x, dtype=float).ravel() for x in xs])
            if xx.size != self.idx.size:
                raise ValueError(f"environment: got {xx.size} design values for {self.idx.size} variables")
            self.xfull = self.filler.copy()
            self.xfull[self.idx] = xx
            return float(self.resp.value(self.xfull))

        def _sensitivity(self, df):
            g = self.resp.grad(self.xfull)[self.idx] * float(df)
            out, k = [], 0
            for sh in self.shapes:
                sz = int(np.prod(sh)) if len(sh) else 1
                out.append(float(g[k]) if len(sh) == 0 else g[k:k + sz].reshape(sh).copy())
                k += sz
            return out

    class C10Concat(pym.Module):
        def _response(self, *xs):
            self.shapes = [np.shape(x) for x in xs]
            return np.concatenate([np.asarray(x, dtype=float).ravel() for x in xs])

        def _sensitivity(self, dy):
            out, k = [], 0
            for sh in self.shapes:
                sz = int(np.prod(sh)) if len(sh) else 1
                out.append(float(dy[k]) if len(sh) == 0 else np.array(dy[k:k + sz]).reshape(sh))
                k += sz
            return out

    _cls.update(resp=C10Resp, concat=C10Concat)


# ------------------------------------------------------------------------------------------------ generation
def gen(rng, idx, tier):
    nmax = 6 if tier == "quick" else 8
    nsig = int(rng.choice([1, 2, 2, 3, 3, 4]))
    sigs, ntot = [], 0
    for _ in range(nsig):
        kind = str(rng.choice(["float", "arr1", "vec", "vec"]))
        n = int(rng.integers(2, 5)) if kind == "vec" else 1
        if ntot + n > nmax - (nsig - len(sigs) - 1):
            kind, n = str(rng.choice(["float", "arr1"])), 1
        sigs.append(dict(kind=kind, n=n))
        ntot += n
    obj = str(rng.choice(["quad", "quad", "sepquad", "recip"]))
    ncon = int(rng.choice([1, 1, 2, 2, 3, 4]))
    cons = []
    for j in range(ncon):
        kind = str(rng.choice(["lin", "lin", "quad", "recip"]))
        sub = int(rng.integers(1, 1 << nsig)) if (nsig > 1 and rng.random() < 0.4) else 0
        cons.append(dict(kind=kind, sub=sub))
    if obj == "recip":
        cons[0] = dict(kind="lin", sub=0)        # volume-like constraint so that the optimum is not simply x = xmax
    positive = obj == "recip" or any(c["kind"] == "recip" for c in cons) or bool(rng.random() < 0.4)
    modes = ["scalar", "scalar", "signal", "var"]
    if tier == "quick":
        maxit = int(rng.choice([15, 30, 45, 60]))
    else:
        maxit = int(rng.choice([20, 40, 60, 100, 150, 300]))
    return dict(
        sigs=sigs, pseed=int(rng.integers(1 << 30)), obj=obj, cons=cons, positive=positive,
        lo=float(rng.choice([0.05, 0.2, 1.0])) if positive else float(rng.choice([-2.0, -0.5, 0.0, 1.0])),
        width=float(rng.choice([0.5, 1.0, 3.0])),
        min_mode=str(rng.choice(modes)), max_mode=str(rng.choice(modes)), move_mode=str(rng.choice(modes)),
        move=float(rng.choice([0.05, 0.1, 0.1, 0.2, 0.5, 1.0])),
        x0=str(rng.choice(["rand", "rand", "lower", "upper", "mixed", "feas", "int"])),
        version=str(rng.choice(["default", "Svanberg2007", "Svanberg1987", "Svanberg1987"])),
        asyinit=float(rng.choice([0.5, 0.5, 0.2, 0.8])), asyincr=float(rng.choice([1.2, 1.2, 1.05, 1.5])),
        asydecr=float(rng.choice([0.7, 0.7, 0.5, 0.9])), albefa=float(rng.choice([0.1, 0.1, 0.05, 0.4])),
        epsimin=float(rng.choice([0.0, 0.0, 1e-7, 1e-9])),          # 0.0 = library default (1e-10)
        tolx=float(rng.choice([1e-4, 1e-4, 1e-6, 0.0])), maxit=maxit,
        net=str(rng.choice(["direct", "direct", "concat"])), tier=tier, share=bool(rng.random() < 0.35),
        vscale=bool(rng.random() < 0.5), bigopt=bool(rng.random() < 0.6), weakbig=bool(rng.random() < 0.6),
        keep_alloc=bool(rng.random() < 0.3), slicevar=bool(rng.random() < 0.25), ops=[])


def simplify(case):
    def mod(**kw):
        c = json.loads(jdump(case))
        c.update(kw)
        return c
    if len(case["sigs"]) > 1:
        for k in range(len(case["sigs"])):
            c = json.loads(jdump(case))
            del c["sigs"][k]
            for cc in c["cons"]:
                cc["sub"] = 0
            yield c
    for k, s in enumerate(case["sigs"]):
        if s["kind"] == "vec" and s["n"] > 2:
            c = json.loads(jdump(case))
            c["sigs"][k]["n"] = s["n"] - 1
            yield c
    if len(case["cons"]) > 1:
        for k in range(len(case["cons"]) - 1, -1, -1):
            if case["obj"] == "recip" and k == 0:
                continue
            c = json.loads(jdump(case))
            del c["cons"][k]
            yield c
    for k, cc in enumerate(case["cons"]):
        if cc["sub"] != 0:
            c = json.loads(jdump(case))
            c["cons"][k]["sub"] = 0
            yield c
        if cc["kind"] != "lin":
            c = json.loads(jdump(case))
            c["cons"][k]["kind"] = "lin"
            yield c
    if case["maxit"] > 2:
        yield mod(maxit=max(2, case["maxit"] // 2))
        yield mod(maxit=case["maxit"] - 1)
    for key, val in (("min_mode", "scalar"), ("max_mode", "scalar"), ("move_mode", "scalar"), ("net", "direct"),
                     ("x0", "feas"), ("version", "default"), ("asyinit", 0.5), ("asyincr", 1.2), ("asydecr", 0.7),
                     ("albefa", 0.1), ("epsimin", 0.0), ("tolx", 1e-4), ("move", 0.1), ("width", 1.0), ("obj", "sepquad")):
        if case.get(key) != val and not (key == "obj" and case["obj"] == "recip"):
            yield mod(**{key: val})


# ------------------------------------------------------------------------------------------------ environment (pure NumPy)
class Resp:
    """ kind: quad 0.5 (x-p)'B(x-p)*s + o | lin a.(x-xf)*s + o | recip sum(c/x)*s + o ; all convex on the box """
    def __init__(self, kind, **kw):
        self.kind = kind
        self.__dict__.update(kw)

    sc = 1.0    # per-variable scaling of the design space: the response is evaluated at z = x / sc

    def value(self, x):
        x = x / self.sc
        if self.kind == "quad":
            d = x - self.p
            return 0.5 * float(d @ self.B @ d) * self.s + self.o
        if self.kind == "lin":
            return float(self.a @ (x - self.p)) * self.s + self.o
        return float(np.sum(self.c / x)) * self.s + self.o

    def grad(self, x):
        x = x / self.sc
        if self.kind == "quad":
            return (self.B @ (x - self.p)) * self.s / self.sc
        if self.kind == "lin":
            return self.a * self.s / self.sc
        return -self.c / x ** 2 * self.s / self.sc


def _psd(rng, n, mask, full_rank, lo_ev=0.5, hi_ev=4.0):
    idx = np.flatnonzero(mask)
    k = idx.size
    Qm, _ = np.linalg.qr(rng.normal(size=(k, k)))
    ev = rng.uniform(lo_ev, hi_ev, k)
    if not full_rank and k > 1:
        ev[rng.integers(0, k)] = 0.0
    Bk = (Qm * ev) @ Qm.T
    Bk = 0.5 * (Bk + Bk.T)
    B = np.zeros((n, n))
    B[np.ix_(idx, idx)] = Bk
    return B


def _expand(mode, rng, sizes, base, spread):
    """ per-variable array for a 'scalar' / 'signal' / 'var' specification: base + spread * u, u in [0, 1) """
    n = int(sum(sizes))
    u_sig, u_var = rng.random(len(sizes)), rng.random(n)
    if mode == "scalar":
        return np.full(n, float(base))
    if mode == "signal":
        return np.concatenate([np.full(sz, base + spread * u_sig[i]) for i, sz in enumerate(sizes)])
    return base + spread * u_var


def build(case):
    sizes = [s["n"] if s["kind"] == "vec" else 1 for s in case["sigs"]]
    n = int(sum(sizes))
    cum = np.concatenate([[0], np.cumsum(sizes)]).astype(int)
    rng = sub_rng(0x10, case["pseed"])
    w = float(case["width"])
    lo = _expand(case["min_mode"], rng, sizes, case["lo"], 0.4 * w if not case["positive"] else 0.4 * min(w, case["lo"] * 4))
    hi = _expand(case["max_mode"], rng, sizes, float(lo.max()) + 0.6 * w, 0.4 * w)
    mv = _expand(case["move_mode"], rng, sizes, case["move"], case["move"])
    rngw = hi - lo
    xf = lo + rng.uniform(0.25, 0.75, n) * rngw
    # which variables will be scaled to another magnitude (see the end of this function)
    sc = np.ones(n)
    if case.get("vscale") and case["min_mode"] != "scalar" and case["max_mode"] != "scalar" and len(sizes) > 1:
        fac = [1.0, 1e4, 1e-3, 1e2]
        per_sig = [fac[(case["pseed"] + 3 * i) % 4] if i > 0 else 1.0 for i in range(len(sizes))]
        sc = np.concatenate([np.full(sz, per_sig[i]) for i, sz in enumerate(sizes)])
    # "weakbig": the large-magnitude variables are decoupled from the rest (separable objective, not in any constraint), so that
    # once they sit at their optimum they stay there while the other variables still move
    weakbig = bool(case.get("weakbig")) and bool(np.any(sc > 1.0)) and not bool(np.all(sc > 1.0))
    # objective
    full = np.ones(n, dtype=bool)
    if case["obj"] in ("quad", "sepquad"):
        if case["obj"] == "quad" and not weakbig:
            B = _psd(rng, n, full, True)
        else:
            B = np.diag(rng.uniform(0.5, 4.0, n))
        t = lo + rng.uniform(-0.4, 1.4, n) * rngw
        f0 = Resp("quad", B=B, p=t, s=1.0, o=1.0)
    else:
        f0 = Resp("recip", c=rng.uniform(0.2, 3.0, n), s=1.0, o=1.0)
    resps, masks = [f0], [full]
    for cc in case["cons"]:
        sub = int(cc["sub"]) % (1 << len(sizes))
        mask = np.zeros(n, dtype=bool)
        for i in range(len(sizes)):
            if sub == 0 or (sub >> i) & 1:
                mask[cum[i]:cum[i + 1]] = True
        if weakbig and np.any(mask & ~(sc > 1.0)):
            mask = mask & ~(sc > 1.0)
        slack = float(rng.uniform(0.05, 0.4))
        if cc["kind"] == "lin":
            a = rng.uniform(0.3, 1.5, n) * (1.0 if case["obj"] == "recip" else rng.choice([-1.0, 1.0], n)) * mask
            nrm = float(np.sum(np.abs(a) * rngw))
            r = Resp("lin", a=a, p=xf.copy(), s=1.0 / nrm, o=-slack)
        elif cc["kind"] == "quad":
            B = _psd(rng, n, mask, bool(rng.random() < 0.5))
            p = lo + rng.uniform(0.0, 1.0, n) * rngw
            d = xf - p
            qf = 0.5 * float(d @ B @ d)
            qtyp = 0.5 * float((rngw * mask) @ np.abs(B) @ (rngw * mask)) + 1e-3
            R = qf + slack * 0.5 * qtyp
            r = Resp("quad", B=B, p=p, s=1.0 / R, o=-1.0)
        else:
            c = rng.uniform(0.2, 3.0, n) * mask
            R = float(np.sum(c / xf)) * (1.0 + slack)
            r = Resp("recip", c=c, s=1.0 / R, o=-1.0)
        resps.append(r)
        masks.append(mask)
    # start point
    u, pick = rng.random(n), rng.integers(0, 3, n)
    kind = case["x0"]
    if kind == "rand":
        x0 = lo + u * rngw
    elif kind == "lower":
        x0 = lo.copy()
    elif kind == "upper":
        x0 = hi.copy()
    elif kind == "feas":
        x0 = xf.copy()
    elif kind == "int":
        # integer-valued start (held in integer-typed states, a legal input) where every variable has an integer in its range
        k_lo, k_hi = np.ceil(lo), np.floor(hi)
        if np.all(k_lo <= k_hi):
            x0 = k_lo + np.floor(u * (k_hi - k_lo + 1))
            x0 = np.minimum(x0, k_hi)
        else:
            x0 = lo + u * rngw
    else:
        x0 = np.where(pick == 0, lo, np.where(pick == 1, hi, lo + u * rngw))
    # variables of very different magnitude (a scalar in [0, 1e4] next to an array in [0, 1]): only possible when both bounds
    # are given per signal or per variable.  The problem is the same one in scaled coordinates x = sc * z.
    if np.any(sc != 1.0):
        for r in resps:
            r.sc = sc
        lo, hi, xf, x0 = lo * sc, hi * sc, xf * sc, x0 * sc
    return dict(sizes=sizes, n=n, cum=cum, lo=lo, hi=hi, mv=mv, xf=xf, resps=resps, masks=masks, x0=x0, sc=sc)


def reference_optimum(pb, seed):
    """ SLSQP from several starts; returns (fstar, xstar, ok) -- ok only if two starts agree and the point is feasible """
    from scipy.optimize import minimize
    sc = pb.get("sc", 1.0)
    resps, lo, hi = pb["resps"], pb["lo"] / sc, pb["hi"] / sc          # solved in the unscaled coordinates z = x / sc

    class _Z:
        def __init__(self, r):
            self.r = r

        def value(self, z):
            return self.r.value(z * sc)

        def grad(self, z):
            return self.r.grad(z * sc) * sc
    resps = [_Z(r) for r in resps]
    cons = [dict(type="ineq", fun=(lambda x, r=r: -r.value(x)), jac=(lambda x, r=r: -r.grad(x))) for r in resps[1:]]
    rng = sub_rng(0x5157, seed)
    starts = [pb["xf"] / sc, 0.5 * (lo + hi), lo + rng.random(lo.size) * (hi - lo), lo + rng.random(lo.size) * (hi - lo)]
    sols = []
    for s in starts:
        try:
            with warnings.catch_warnings():
                warnings.simplefilter("ignore")
                o = minimize(resps[0].value, s, jac=resps[0].grad, bounds=list(zip(lo, hi)), constraints=cons, method="SLSQP",
                             options=dict(ftol=1e-13, maxiter=500))
        except Exception:  # noqa
            continue
        x = np.clip(o.x, lo, hi)
        gmax = max(r.value(x) for r in resps[1:])
        if o.success and gmax <= 1e-8 and np.all(np.isfinite(x)):
            sols.append((resps[0].value(x), x))
    if len(sols) < 2:
        return None, None, False
    sols.sort(key=lambda t: t[0])
    fbest, xbest = sols[0]
    agree = sum(1 for f, _ in sols if abs(f - fbest) <= 1e-7 * (1.0 + abs(fbest)))
    return fbest, xbest * sc, agree >= 2


def _r(v):
    return repr(float(v))


# ------------------------------------------------------------------------------------------------ run + oracle
def run(case):
    warnings.simplefilter("ignore")
    np.seterr(all="ignore")
    res = dict(trace=[], nontrivial=False, steps=0, probes={}, faults={}, skipped={}, violations=[], margins={}, detail="")
    P, S, M = res["probes"], res["skipped"], res["margins"]

    def probe(k, c=1):
        P[k] = P.get(k, 0) + c

    def skip(k):
        S[k] = S.get(k, 0) + 1

    def margin(k, v):
        v = float(v)
        if np.isfinite(v):
            M[k] = max(M.get(k, 0.0), v)

    pb = build(case)
    if np.any(np.asarray(pb.get("sc", 1.0)) != 1.0):
        res["probes"]["variables_of_different_magnitude"] = res["probes"].get("variables_of_different_magnitude", 0) + 1
    if case.get("bigopt") and np.any(np.asarray(pb.get("sc", 1.0)) > 1.0):
        # the large-magnitude variables start at their optimum (already converged) while the others still have to move
        f_, x_, ok_ = reference_optimum(pb, case["pseed"])
        if ok_:
            big = np.asarray(pb["sc"]) > 1.0
            pb["x0"] = np.where(big, np.clip(x_, pb["lo"], pb["hi"]), pb["x0"])
            res["probes"]["large_variables_start_converged"] = res["probes"].get("large_variables_start_converged", 0) + 1
    sizes, n, cum, lo, hi, mv, resps, masks, x0 = (pb[k] for k in ("sizes", "n", "cum", "lo", "hi", "mv", "resps", "masks", "x0"))
    m = len(resps) - 1
    dxr = hi - lo
    version = case["version"]
    feats = [f"nsig={len(sizes)}", f"kinds={'/'.join(s['kind'] for s in case['sigs'])}", f"obj={case['obj']}",
             f"cons={'/'.join(c['kind'] + ('s' if c['sub'] else '') for c in case['cons'])}", f"min={case['min_mode']}",
             f"max={case['max_mode']}", f"move={case['move_mode']}", f"version={version}", f"net={case['net']}"]

    def viol(clause, msg, at, extra=()):
        res["violations"].append(dict(cls=["C10", clause], msg=msg, at=at, features=feats + list(extra)))

    def hard():
        return any(v["cls"][1] != "sub-kkt" for v in res["violations"])

    # ---- signals and network
    Signal = pym.Signal
    sig = []
    # two equally sized vector signals may be initialised from the *same* array object (x0 = np.full(n, .5); Signal('a', x0);
    # Signal('b', x0)): legal, and the designs must still be written back to the right signals
    shared = {}
    if case.get("share"):
        vec = [i for i, s in enumerate(case["sigs"]) if s["kind"] == "vec"]
        for a_ in vec:
            for b_ in vec:
                if a_ < b_ and sizes[a_] == sizes[b_] and b_ not in shared and a_ not in shared:
                    la, ha = pb["lo"][cum[a_]:cum[a_ + 1]], pb["hi"][cum[a_]:cum[a_ + 1]]
                    lb, hb = pb["lo"][cum[b_]:cum[b_ + 1]], pb["hi"][cum[b_]:cum[b_ + 1]]
                    lo_, hi_ = np.maximum(la, lb), np.minimum(ha, hb)
                    if np.all(lo_ <= hi_):
                        v = np.clip(x0[cum[a_]:cum[a_ + 1]], lo_, hi_)
                        x0[cum[a_]:cum[a_ + 1]] = v
                        x0[cum[b_]:cum[b_ + 1]] = v
                        shared[b_] = a_
    for i, (s, sz) in enumerate(zip(case["sigs"], sizes)):
        seg = x0[cum[i]:cum[i + 1]]
        as_int = case["x0"] == "int" and bool(np.all(x0 == np.round(x0)))
        if i in shared and not as_int:
            sig.append(Signal(f"x{i}", state=sig[shared[i]].state))      # the very same array object
            probe("vector_signal")
            probe("signals_share_initial_array")
            continue
        if s["kind"] == "float":
            st = int(seg[0]) if as_int else float(seg[0])
            probe("float_signal")
        elif s["kind"] == "arr1":
            st = np.array([seg[0]]).astype(int) if as_int else np.array([seg[0]])
            probe("arr1_signal")
        else:
            st = seg.astype(int) if as_int else seg.copy()
            probe("vector_signal")
        if as_int and i == 0:
            probe("integer_typed_start")
        if case.get("slicevar") and s["kind"] == "vec" and not as_int:
            # the design variable is a SignalSlice of a larger signal (used both as MMA variable and as module input)
            base = Signal(f"X{i}", state=np.concatenate([np.full(2, -7.0), st, np.full(1, 9.0)]))
            sig.append(base[2:2 + len(st)])
            probe("variable_is_signal_slice")
            continue
        if case.get("keep_alloc") and s["kind"] != "float" and not as_int:
            # a signal constructed with an initial sensitivity keeps (and zeroes in place) its allocation on reset()
            sig.append(Signal(f"x{i}", state=st, sensitivity=np.zeros_like(st, dtype=float)))
            probe("variable_keeps_sensitivity_allocation")
            continue
        sig.append(Signal(f"x{i}", state=st))
    if len(sig) > 1:
        probe("multi_signal")
    for key, nm in (("min_mode", "bounds"), ("max_mode", "bounds"), ("move_mode", "move")):
        if case[key] == "var":
            probe(f"per_variable_{nm}")
        if case[key] == "signal":
            probe(f"per_signal_{nm}")
    mods, outs = [], []
    filler = pb["xf"].copy()
    if case["net"] == "concat":
        probe("concat_network")
        sy = Signal("y")
        mods.append(_cls["concat"](list(sig), [sy]))
        for j, r in enumerate(resps):
            so = Signal(f"g{j}")
            mods.append(_cls["resp"]([sy], [so], r, np.arange(n), filler))
            outs.append(so)
    else:
        for j, r in enumerate(resps):
            used = [i for i in range(len(sig)) if masks[j][cum[i]]]
            if len(used) < len(sig):
                probe("response_without_signal")
            idx = np.concatenate([np.arange(cum[i], cum[i + 1]) for i in used])
            so = Signal(f"g{j}")
            mods.append(_cls["resp"]([sig[i] for i in used], [so], r, idx, filler))
            outs.append(so)
    net = pym.Network(mods)

    def spec(mode, arr):
        if mode == "scalar":
            return float(arr[0])
        if mode == "signal":
            return [float(arr[cum[i]]) for i in range(len(sizes))]
        return arr.copy()

    kwargs = dict(tolx=case["tolx"], maxit=int(case["maxit"]), move=spec(case["move_mode"], mv),
                  xmin=spec(case["min_mode"], lo), xmax=spec(case["max_mode"], hi), verbosity=0,
                  asyinit=case["asyinit"], asyincr=case["asyincr"], asydecr=case["asydecr"], albefa=case["albefa"])
    if version != "default":
        kwargs["mmaversion"] = version
    probe("version_1987" if "1987" in version else "version_2007")
    if case["epsimin"] > 0:
        kwargs["epsimin"] = case["epsimin"]
    g0 = [r.value(x0) for r in resps]
    if max(g0[1:]) > 0:
        probe("infeasible_start")
    if np.any(x0 == lo) or np.any(x0 == hi):
        probe("start_on_bound")
    res["trace"].append("cfg:" + ",".join(feats) + f",x0={case['x0']},tolx={case['tolx']:g},n={n},m={m},pos={case['positive']}")

    scale = 1.0 + float(np.max(np.abs(np.concatenate([lo, hi]))))
    btol = 1e-12 * scale
    snaps, subs = [], []          # snaps[k] = design at callback k; subs[k] = record of subproblem k
    it_flags = []
    have_spy = _S["orig_subsolv"] is not None and mma_mod is not None and getattr(mma_mod, "subsolv", None) is _spy
    if have_spy:
        probe("spy_installed")
    else:
        skip("no_subsolv_seam")
    state = dict(prev_off=None, wb_checked=0, kkt_reported=False)
    buf = io.StringIO()

    def snapshot():
        return [np.array(s.state, dtype=float).ravel().copy() for s in sig]

    def outer_checks(segs, k, what):
        """ sizes, write-back, bounds, move for the design at callback k """
        szs = [int(a.size) for a in segs]
        if szs != list(sizes):
            viol("write-back", f"{what} {k}: signal sizes {szs} differ from the sizes {list(sizes)} handed in", k)
            raise _Stop()
        x = np.concatenate(segs)
        if not np.all(np.isfinite(x)):
            viol("bounds", f"{what} {k}: design is not finite: {x.tolist()}", k)
            raise _Stop()
        if k >= 1 and have_spy and len(subs) >= k and subs[k - 1].get("xret") is not None and what == "callback":
            xr = subs[k - 1]["xret"]
            if xr.shape != x.shape or not np.array_equal(xr, x):
                j = int(np.argmax(np.abs(xr - x))) if xr.shape == x.shape else -1
                own = int(np.searchsorted(cum, j, side="right") - 1) if j >= 0 else -1
                viol("write-back", f"callback {k}: the variable signals hold {x.tolist()} but subproblem {k - 1} returned "
                     f"{xr.tolist()} (first difference at variable {j}, signal {own})", k)
                raise _Stop()
            state["wb_checked"] += 1
        if k >= 1:
            exb = max(float(np.max(lo - x)), float(np.max(x - hi)))
            margin("bound_excess_over_tol", max(exb, 0.0) / btol)
            if exb > btol:
                j = int(np.argmax(np.maximum(lo - x, x - hi)))
                viol("bounds", f"{what} {k}: variable {j} = {_r(x[j])} outside [{_r(lo[j])}, {_r(hi[j])}]", k)
                raise _Stop()
            xp = np.concatenate(snaps[k - 1]) if what == "callback" else np.concatenate(snaps[-1])
            step = np.abs(x - xp)
            lim = mv * dxr
            mtol = 1e-9 * dxr + 1e-12 * scale
            exm = float(np.max((step - lim) / mtol))
            margin("move_excess_over_tol", max(exm, 0.0))
            if exm > 1.0:
                j = int(np.argmax((step - lim) / mtol))
                viol("move", f"{what} {k}: variable {j} moved by {_r(step[j])} > move*(xmax-xmin) = {_r(mv[j])}*{_r(dxr[j])} = "
                     f"{_r(lim[j])} (from {_r(xp[j])} to {_r(x[j])})", k)
                raise _Stop()
            fl = ""
            if np.any(x <= lo + 1e-6 * dxr) or np.any(x >= hi - 1e-6 * dxr):
                probe("variable_at_bound")
                fl += "b"
            if np.any(step >= lim * (1 - 1e-9)):
                probe("active_move_limit")
                fl += "m"
            it_flags.append(fl)
        return x

    def callback():
        k = len(snaps)
        if not _S["armed"]:
            return
        segs = snapshot()
        outer_checks(segs, k, "callback")
        snaps.append(segs)

    def handler(args, kwargs_):
        k = len(subs)
        rec = dict(xret=None)
        subs.append(rec)
        names = ["epsimin", "low", "upp", "alfa", "beta", "P", "Q", "a0", "a", "b", "c", "d"]
        A = dict(zip(names, args))
        for nm in names[len(args):]:
            if nm in kwargs_:
                A[nm] = kwargs_[nm]
        ok_args = all(nm in A for nm in names)
        if ok_args:
            A = {nm: (np.array(v, dtype=float, copy=True) if not np.isscalar(v) else float(v)) for nm, v in A.items()}
        _S_count0, pos0 = _S["count"], buf.tell()
        out = _S["orig_subsolv"](*args, **kwargs_)
        rec["work"] = _S["count"] - _S_count0
        rec["capmsg"] = "MMA Subsolver: itt" in buf.getvalue()[pos0:]
        if not ok_args or len(snaps) != k + 1:
            skip("subproblem_interface_not_aligned")
            try:
                rec["xret"] = np.array(out[0], dtype=float).ravel().copy()
            except Exception:  # noqa
                pass
            return out
        xk = np.concatenate(snaps[k])
        _check_subproblem(k, xk, A, out, rec)
        return out

    def _check_subproblem(k, xk, A, out, rec):
        low, upp, alfa, beta, Pm, Qm, b = (np.asarray(A[nm], dtype=float) for nm in ("low", "upp", "alfa", "beta", "P", "Q", "b"))
        if not (low.shape == upp.shape == alfa.shape == beta.shape == (n,) and Pm.shape == Qm.shape == (m + 1, n) and b.shape == (m,)):
            skip("subproblem_interface_shapes_unknown")
            rec["xret"] = np.array(out[0], dtype=float).ravel().copy()
            return
        # ---- asymptotes strictly enclose the admissible interval
        if not (np.all(np.isfinite(np.concatenate([low, upp, alfa, beta]))) and np.all(low < alfa) and np.all(alfa <= beta)
                and np.all(beta < upp)):
            bad = np.flatnonzero(~((low < alfa) & (alfa <= beta) & (beta < upp)))
            j = int(bad[0]) if bad.size else 0
            viol("asymptotes", f"subproblem {k}: variable {j}: low={_r(low[j])} alfa={_r(alfa[j])} beta={_r(beta[j])} "
                 f"upp={_r(upp[j])} is not low < alfa <= beta < upp (x_k={_r(xk[j])})", k)
            raise _Stop()
        margin("interval_to_asymptote_min_rel_gap_inv", 1.0 / max(1e-300, float(np.min(np.minimum(alfa - low, upp - beta) / dxr))) * 1e-6)
        ux, xl = upp - xk, xk - low
        if not (np.all(ux > 0) and np.all(xl > 0)):
            j = int(np.argmin(np.minimum(ux, xl)))
            viol("asymptotes", f"subproblem {k}: current design variable {j} = {_r(xk[j])} is not strictly between the "
                 f"asymptotes ({_r(low[j])}, {_r(upp[j])})", k)
            raise _Stop()
        # ---- convexity
        if float(min(Pm.min(), Qm.min())) < 0.0:
            viol("approx-convex", f"subproblem {k}: negative coefficient min(P)={Pm.min():.3e} min(Q)={Qm.min():.3e}: the "
                 f"approximation is not convex", k)
            raise _Stop()
        # ---- value and gradient at the current design
        gtrue = np.array([r.value(xk) for r in resps])
        dgtrue = np.vstack([r.grad(xk) for r in resps])
        tp, tq = Pm / ux, Qm / xl
        val = tp.sum(axis=1)[1:] + tq.sum(axis=1)[1:] - b
        vtol = 1e-8 * (1.0 + np.abs(gtrue[1:]) + np.abs(tp).sum(axis=1)[1:] + np.abs(tq).sum(axis=1)[1:])
        ev = np.abs(val - gtrue[1:]) / vtol
        margin("approx_value_error_over_tol", float(ev.max()))
        if float(ev.max()) > 1.0:
            i = int(np.argmax(ev)) + 1
            viol("approx-value", f"subproblem {k}: approximation of constraint {i} at the current design is {_r(val[i - 1])}, the "
                 f"true value g_{i}(x_k) is {_r(gtrue[i])}", k)
            raise _Stop()
        gap = tp / ux - tq / xl
        gtol = 1e-7 * (np.abs(dgtrue).max(axis=1, keepdims=True) + (np.abs(tp / ux) + np.abs(tq / xl)) * 1e-2 + 1e-9)
        eg = np.abs(gap - dgtrue) / gtol
        margin("approx_gradient_error_over_tol", float(eg.max()))
        if float(eg.max()) > 1.0:
            i, j = np.unravel_index(int(np.argmax(eg)), eg.shape)
            viol("approx-grad", f"subproblem {k}: d/dx_{j} of the approximation of response {i} at the current design is "
                 f"{_r(gap[i, j])}, the true derivative is {_r(dgtrue[i, j])} (P={_r(Pm[i, j])}, Q={_r(Qm[i, j])}, "
                 f"upp-x={_r(ux[j])}, x-low={_r(xl[j])})", k)
            raise _Stop()
        # ---- returned solution
        try:
            x, y, z, lam, xsi, eta, mu, zet, s = out
            x = np.array(x, dtype=float).ravel()
            y, lam, xsi, eta, mu, s = (np.asarray(v, dtype=float).ravel() for v in (y, lam, xsi, eta, mu, s))
            z, zet = float(z), float(zet)
        except Exception:  # noqa
            skip("subproblem_return_unknown")
            return
        rec["xret"] = x.copy()
        if x.shape != (n,) or not np.all(np.isfinite(x)):
            viol("sub-interval", f"subproblem {k}: returned x is not a finite vector of length {n}: {x.tolist()}", k)
            raise _Stop()
        itol = 1e-12 * scale
        exi = max(float(np.max(alfa - x)), float(np.max(x - beta)))
        margin("interval_excess_over_tol", max(exi, 0.0) / itol)
        if exi > itol:
            j = int(np.argmax(np.maximum(alfa - x, x - beta)))
            viol("sub-interval", f"subproblem {k}: returned x_{j} = {_r(x[j])} outside [alfa, beta] = [{_r(alfa[j])}, {_r(beta[j])}]", k)
            raise _Stop()
        eps = float(A["epsimin"])
        a0, av, cv, dv = float(A["a0"]), np.asarray(A["a"], dtype=float), np.asarray(A["c"], dtype=float), np.asarray(A["d"], dtype=float)
        ux, xl = upp - x, x - low
        plam = Pm[0] + lam @ Pm[1:]
        qlam = Qm[0] + lam @ Qm[1:]
        parts = dict(
            stat_x=plam / ux ** 2 - qlam / xl ** 2 - xsi + eta,
            stat_y=cv + dv * y - mu - lam,
            stat_z=np.array([a0 - zet - av @ lam]),
            primal=Pm[1:] @ (1 / ux) + Qm[1:] @ (1 / xl) - av * z - y + s - b,
            comp_xsi=xsi * (x - alfa), comp_eta=eta * (beta - x), comp_mu=mu * y, comp_zet=np.array([zet * z]), comp_s=lam * s)
        worst_nm, worst = max(((nm, float(np.max(np.abs(v))) if v.size else 0.0) for nm, v in parts.items()), key=lambda t: t[1])
        neg = min(float(np.min(v)) if np.size(v) else 0.0 for v in (y, lam, xsi, eta, mu, s, np.array([z, zet])))
        bound = 20.0 * eps
        rec["kkt"] = worst / bound
        margin("kkt_residual_over_bound", worst / bound)
        if not np.isfinite(worst) or worst > bound or neg < -bound:
            rec["fl_kkt"] = True
            if not state["kkt_reported"]:
                # the design sequence stays well defined after an inexact subproblem: record once, keep observing
                state["kkt_reported"] = True
                viol("sub-kkt", f"subproblem {k}: KKT residual of the returned point is {worst:.3e} ({worst_nm}), smallest "
                     f"multiplier/slack {neg:.3e}; requested accuracy epsimin = {eps:.3e} admits {bound:.3e} "
                     f"(norm calls inside this subproblem: {rec.get('work')}; solver printed its Newton-cap message: "
                     f"{rec.get('capmsg')})", k, extra=["newton_cap_hit" if rec.get("capmsg") else "newton_cap_silent"])
        # ---- probes from the interface: asymptote widening / narrowing
        off = (upp - low) / (2 * dxr)
        if state["prev_off"] is not None:
            fl = ""
            if np.any(off < state["prev_off"] * (1 - 1e-9)):
                probe("asymptote_decrease")
                fl += "d"
            if np.any(off > state["prev_off"] * (1 + 1e-9)):
                probe("asymptote_increase")
                fl += "i"
            rec["fl"] = fl
        state["prev_off"] = off

    # ---- execute
    tier = case.get("tier", "quick")
    exc, capped = None, None
    _S.update(armed=True, count=0, budget=int(WORK_BUDGET.get(tier, WORK_BUDGET["quick"])), t0=core._real_perf(),
              handler=handler if have_spy else None)
    try:
        with contextlib.redirect_stdout(buf):
            pym.minimize_mma(net, list(sig), outs, fn_callback=callback, **kwargs)
    except _Cap as ex:
        capped = str(ex)
    except _Stop:
        pass
    except Exception as ex:  # noqa
        exc = ex
    finally:
        _S["armed"] = False
        _S["handler"] = None
    work = _S["count"]
    if work > 0:
        probe("work_counter_seen")
    out_txt = buf.getvalue()
    ncap = out_txt.count("MMA Subsolver: itt")
    if ncap:
        probe("newton_cap_message", ncap)
    res["steps"] = len(snaps)

    # ---- per-iteration tokens
    for k in range(len(snaps)):
        tok = "it:" + (it_flags[k - 1] if 1 <= k <= len(it_flags) else "")
        if k < len(subs):
            tok += subs[k].get("fl", "") + ("N" if subs[k].get("capmsg") else "") + ("K" if subs[k].get("fl_kkt") else "")
        res["trace"].append(tok)

    if capped is not None:
        skip("work_cap" if capped == "work" else "wall_cap")
        res["trace"].append("end:cap-" + capped)
    elif exc is not None and not hard():
        viol("exception", f"minimize_mma raised {type(exc).__name__}: {str(exc)[:300]} after {len(snaps)} iterations", len(snaps))
        res["trace"].append("end:EXC:" + type(exc).__name__)
    elif not hard():
        # ---- the design left in the signals
        try:
            _S["armed"] = False
            final = snapshot()
            if snaps:
                xfin = np.concatenate(final)
                szs = [int(a.size) for a in final]
                if szs != list(sizes):
                    viol("write-back", f"after the run: signal sizes {szs} differ from {list(sizes)}", len(snaps))
                elif len(snaps) >= 2:
                    exb = max(float(np.max(lo - xfin)), float(np.max(xfin - hi)))
                    if exb > btol:
                        j = int(np.argmax(np.maximum(lo - xfin, xfin - hi)))
                        viol("bounds", f"after the run: variable {j} = {_r(xfin[j])} outside [{_r(lo[j])}, {_r(hi[j])}]", len(snaps))
        except Exception as ex:  # noqa
            viol("exception", f"reading the variable signals after the run raised {type(ex).__name__}: {str(ex)[:200]}", len(snaps))
        if not hard():
            _liveness(case, pb, res, snaps, subs, probe, skip, margin, viol, out_txt)
    else:
        res["trace"].append("end:V:" + [v["cls"][1] for v in res["violations"] if v["cls"][1] != "sub-kkt"][0])

    res["nontrivial"] = len(subs) >= 2 and state["wb_checked"] >= 1
    kk = [s.get("kkt", 0.0) for s in subs]
    res["detail"] = (f"n={n} m={m} its={len(snaps)} subs={len(subs)} work={work} "
                     f"kktmax={max(kk) if kk else 0:.3e} f_end={resps[0].value(np.concatenate(snaps[-1])) if snaps else 0:.12g}")
    return res


def _liveness(case, pb, res, snaps, subs, probe, skip, margin, viol, out_txt):
    resps, lo, hi, mv = pb["resps"], pb["lo"], pb["hi"], pb["mv"]
    maxit = int(case["maxit"])
    nit = len(snaps)
    # stopping reason: the loop ends either at maxit or by the step-size criterion
    converged = nit <= maxit and len(subs) == nit and nit > 0 and case["tolx"] > 0 and _last_step_small(case, pb, snaps, subs)
    if not converged and 0 < nit < maxit and len(subs) == nit:
        # the optimiser stopped on its own before maxit although the documented step-size criterion is not met: whatever made
        # it stop, a run that declares itself finished is judged like a converged one (it must have approached the optimum)
        converged = True
        probe("stopped_before_maxit_without_meeting_tolx")
    if converged:
        probe("converged_tolx")
        res["trace"].append("end:tolx")
    else:
        probe("maxit_reached")
        res["trace"].append("end:maxit")
    if nit < 1:
        skip("liveness_not_judged_no_iterations")
        return
    fstar, xstar, ok = reference_optimum(pb, case["pseed"])
    if not ok:
        skip("liveness_not_judged_reference_starts_disagree")
        res["trace"].append("live:skip-ref")
        return
    if np.any(xstar <= lo + 1e-7 * (hi - lo)) or np.any(xstar >= hi - 1e-7 * (hi - lo)):
        probe("bound_active_at_optimum")
    if max(r.value(xstar) for r in resps[1:]) > -1e-7:
        probe("constraint_active_at_optimum")
    x_end = np.concatenate(snaps[-1])
    x0 = pb["x0"]
    f0, fe = resps[0].value(x0), resps[0].value(x_end)
    # initial gap with a floor (a start next to the optimum must not turn "1 %" into an accuracy requirement: once the
    # asymptote offsets have collapsed to their floor 1/asybound^2 the iterates creep by <= 0.9 % of the range per iteration)
    gap0 = max(abs(f0 - fstar), 5e-2 * (1.0 + abs(fstar)))
    gape = abs(fe - fstar)
    ge = max(r.value(x_end) for r in resps[1:])
    # Iteration budget that entitles the caller to a 1 % gap.  MMA approximations are monotone in every variable, so around an
    # interior optimum the iterates oscillate with an amplitude that only shrinks with the asymptotes (factor asydecr per
    # iteration): 20 iterations + the time for the asymptote offset to shrink 100-fold, and enough travel to cross the box twice.
    need = 20 + int(np.ceil(np.log(0.01) / np.log(float(case["asydecr"]))))
    travel = float(np.min(mv)) * (nit - 1)
    if (case["asyincr"] > 1.2 + 1e-12 or case["asydecr"] > 0.7 + 1e-12) and nit >= maxit:
        # plain MMA (no GCMMA inner loop) is not globally convergent: with aggressive widening (asyincr = 1.5) or weak
        # narrowing (asydecr = 0.9) the unchanged tree cycles for hundreds of iterations on some convex problems
        # (calibration over 400 judged thorough-tier runs: 3 of 108 runs with asyincr = 1.5 miss the 1 % gap after 100-300
        # iterations, asydecr = 0.9 reaches 40 % of the bound, the 224 runs inside the judged region stay below 2 % of it)
        skip("liveness_not_judged_nondefault_asymptote_dynamics")
        res["trace"].append("live:skip-asy")
        margin("unjudged_gap_over_bound", gape / (0.01 * gap0))
        return
    if not converged and (nit < need or travel < 2.0):
        skip("liveness_not_judged_budget_too_small")
        res["trace"].append("live:skip-budget")
        margin("unjudged_gap_over_bound", gape / (0.01 * gap0))
        return
    probe("liveness_judged")
    margin("objective_gap_over_bound", gape / (0.01 * gap0))
    # a run that ends by the step-size criterion is only accurate to that criterion (constraints are normalised to O(1))
    cbound = 1e-6 + (10.0 * case["tolx"] if converged else 0.0)
    if not converged and len(snaps) >= 2:
        # a run cut off by maxit is still moving: MMA without regularisation of flat directions (1987 approximations: curvature
        # proportional to |df/dx_i|) ends in a limit cycle of amplitude 0.9 % of the range -- the floor of the asymptote offsets -- in
        # variables whose derivatives vanish at the optimum; the constraints can be off by what that last step is worth
        # (first order), not by more
        step = np.abs(x_end - np.concatenate(snaps[-2]))
        cbound += 2.0 * max(float(np.abs(r.grad(x_end)) @ step) for r in resps[1:])
        if float(np.max(step / (hi - lo))) > 1e-3:
            probe("maxit_reached_while_cycling")
    margin("constraint_value_over_bound", max(ge, 0.0) / cbound)
    if gape > 0.01 * gap0:
        viol("liveness", f"after {nit} iterations ({'converged by tolx' if converged else 'maxit'}) f = {_r(fe)} while the "
             f"reference optimum is {_r(fstar)}: gap {gape:.3e} > 1 % of the initial gap {gap0:.3e} (f(x0) = {_r(f0)})", nit)
        res["trace"].append("live:GAP")
    elif ge > cbound:
        viol("liveness", f"after {nit} iterations the largest constraint value is {ge:.3e} > {cbound:.1e} (constraints are "
             f"normalised to O(1)); f = {_r(fe)}, reference optimum {_r(fstar)}", nit)
        res["trace"].append("live:CON")
    else:
        res["trace"].append("live:ok")


def _last_step_small(case, pb, snaps, subs):
    """ did the loop end by the step-size criterion?  (same formula as documented: |dx/range| / |x/range| < tolx) """
    if not subs or subs[-1].get("xret") is None or len(subs) != len(snaps):
        return len(snaps) < int(case["maxit"])
    x = np.concatenate(snaps[-1])
    xn = subs[-1]["xret"]
    dx = pb["hi"] - pb["lo"]
    den = float(np.linalg.norm(x / dx))
    if den == 0:
        return False
    return float(np.linalg.norm((x - xn) / dx)) / den < case["tolx"]
