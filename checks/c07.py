"""C07 -- Linear-system modules satisfy their defining equations   (state / fault part)

System under test: long-lived real LinSolve / Inverse / SystemOfEquations / StaticCondensation instances (each holds a
solver chosen at first use, symmetry flags, the last solution as next initial guess, derived dof partitions, an LDAS
database).  Histories {set matrix (values + pattern change, class fixed), set right-hand side / prescribed values,
response, adjoint cycle (seed+sensitivity+reset), fault} are generated as data; 1-2 instances interleaved.
Oracle at every response: the defining equations, evaluated densely with NumPy.
"""
import warnings

import numpy as np
import scipy.sparse as sps

from sim import seams
from sim.core import sub_rng
from sim import gen as G

PROP = "C07"
LEVEL = "exploration"
TIERS = {"quick": dict(runs=4000, chunk=100), "thorough": dict(budget_s=480, max_runs=600_000, chunk=200)}
RUN_WALL_CAP = 60
RULE = ("one case = module kind + matrix class/storage (ndarray, csc, csr) + solver override (auto, explicit LU, pre-wrapped "
        "LDAWrapper, CG, use_lda_solver=False) + flags + dof partition spec + 1-2 instances + 3-14 generated operations {setA "
        "(new values, new off-diagonal pattern incl. rows/columns decoupled by boundary conditions), setb (vector/block, real/"
        "complex), response, adjoint cycle, cholesky_fail}; distinct = distinct abstract traces; non-trivial = a response that "
        "follows an earlier response of the same instance with a changed matrix or right-hand side, or a fallback")
PROBES = ["second_response_changed_pattern", "second_response_same_matrix_new_rhs", "partition_from_free_only",
          "partition_from_prescribed_only", "adjoint_cycle_between_responses", "cholesky_fallback", "two_instances_interleaved",
          "block_rhs", "complex_system", "dense_input", "prewrapped_lda", "lda_disabled", "decoupled_dofs", "partition_indices_unsorted"]
FAULT_KINDS = ["cholesky_fail_forced", "cholesky_fail_natural"]
COMPONENTS = {"real": ["pymoto.LinSolve", "pymoto.Inverse", "pymoto.SystemOfEquations", "pymoto.StaticCondensation",
                       "pymoto.solvers (auto_determine_solver, LDAWrapper, direct solvers, CG)"],
              "stub": ["scipy.linalg.cholesky failure injection (seam)"]}
ASSUMPTIONS = ["matrix class fixed per instance; the first matrix of an instance is generic for its class (full pattern)",
               "documented limitation excluded: complex right-hand side with a real sparse matrix (LinSolve documents the TypeError)",
               "StaticCondensation / SystemOfEquations: real matrices (their outputs are allocated as float for real A)",
               "sensitivity values themselves are not judged here (C01); adjoint cycles only create state"]
NOT_EXERCISED = ["Pardiso / CHOLMOD back-ends (not installed)"]

pym = None
KINDS = ["LinSolve", "LinSolve", "Inverse", "SystemOfEquations", "StaticCondensation"]


def setup():
    global pym
    seams.install()
    pym = seams.import_pymoto()


def gen(rng, idx, tier):
    kind = str(rng.choice(KINDS))
    cplx = bool(rng.random() < 0.3) and kind in ("LinSolve", "Inverse")
    cls = str(rng.choice(G.CLASSES_CPLX if cplx else G.CLASSES_REAL + ["hindef_posdiag"]))
    storage = str(rng.choice(["dense", "csc", "csr", "csc_full", "csr_full"])) if kind != "Inverse" else "dense"
    solver = str(rng.choice(["auto", "auto", "auto", "explicit", "wrapped", "cg", "nolda"]))
    if solver == "cg" and cls not in ("spd", "hpd"):
        solver = "auto"
    n = int(rng.integers(3, 25 if tier == "thorough" else 10))
    nobj = 2 if rng.random() < 0.2 else 1
    flags = [False, False, "both", "sym_only", "herm_only"][int(rng.integers(0, 5))]
    part = str(rng.choice(["free", "prescribed", "both"]))
    p_cplx_rhs = float(rng.choice([0.0, 0.4])) if (cplx or storage == "dense") and kind == "LinSolve" else 0.0
    p_fault = 0.2 if storage == "dense" and cls in ("spd", "hpd", "hindef_posdiag") else 0.0
    ops = []
    for _ in range(int(rng.integers(3, 30 if tier == "thorough" else 15))):
        o = int(rng.integers(0, nobj))
        r = rng.random()
        if r < 0.2:
            if rng.random() < p_fault:
                ops.append(dict(op="fault", kind="cholesky_fail", arm=1))
            ops.append(dict(op="setA", o=o, seed=int(rng.integers(1 << 30)),
                            pattern=str(rng.choice(["full", "banded", "random", "block", "bothdec", "rowdec", "coldec"])),
                            scale=float(rng.choice([1.0, 1.0, 1.0, 1e-10, 1e-4, 1e6])), pert=bool(rng.random() < 0.2)))
        elif r < 0.4:
            ops.append(dict(op="setb", o=o, seed=int(rng.integers(1 << 30)), k=int(rng.choice([0, 0, 1, 2, 3])),
                            cplx=bool(rng.random() < p_cplx_rhs)))
        elif r < 0.85:
            ops.append(dict(op="resp", o=o))
        else:
            ops.append(dict(op="adj", o=o, seed=int(rng.integers(1 << 30)), double=bool(rng.random() < 0.3)))
    if not any(o["op"] == "resp" for o in ops):
        ops.append(dict(op="resp", o=0))
    return dict(kind=kind, cplx=cplx, cls=cls, storage=storage, solver=solver, n=n, nobj=nobj, flags=flags, part=part,
                pseed=int(rng.integers(1 << 30)), a0=int(rng.integers(1 << 30)), b0=int(rng.integers(1 << 30)),
                scale0=float(rng.choice([1.0, 1.0, 1e-10, 1e5])),
                k0=int(rng.choice([0, 0, 2])), ops=ops, unsorted=bool(rng.random() < 0.4),
                layout=str(rng.choice(["C", "C", "F", "T"])))


def simplify(case):
    import json
    from sim.core import jdump
    if case.get("nobj", 1) > 1:
        c = json.loads(jdump(case))
        c["nobj"] = 1
        yield c
    for key, val in (("solver", "auto"), ("flags", False), ("k0", 0), ("storage", "dense")):
        if case[key] != val:
            c = json.loads(jdump(case))
            c[key] = val
            yield c
    if case["n"] > 3:
        c = json.loads(jdump(case))
        c["n"] -= 1
        yield c
    for i, op in enumerate(case["ops"]):
        for key, val in (("pattern", "full"), ("k", 0), ("cplx", False), ("double", False)):
            if key in op and op[key] != val:
                c = json.loads(jdump(case))
                c["ops"][i][key] = val
                yield c


# ------------------------------------------------------------------------------------------------ instances
def sym_like(cls):
    return cls in ("sym", "spd", "herm", "hpd", "csym", "hindef_posdiag")


class Inst:
    def __init__(self, case, oi):
        S = pym.Signal
        self.case = case
        kind, n = case["kind"], case["n"]
        self.kind, self.n = kind, n
        self.nresp = 0
        self.last = None      # (pattern, a_seed, b_key) at last response
        rng = sub_rng(0x70, case["pseed"] + oi)
        kw = {}
        sol = case["solver"]
        Sv = pym.solvers
        sparse = case["storage"] != "dense"
        if kind != "Inverse":
            if sol == "explicit":
                kw["solver"] = Sv.SolverSparseLU() if sparse else Sv.SolverDenseLU()
            elif sol == "wrapped":
                kw["solver"] = Sv.LDAWrapper(Sv.SolverSparseLU() if sparse else Sv.SolverDenseQR(), tol=1e-8)
            elif sol == "cg":
                kw["solver"] = Sv.CG(tol=1e-11, maxit=3000, preconditioner=Sv.Preconditioner())
            if case["flags"]:
                cls = case["cls"]
                sym = cls in ("sym", "spd", "csym", "hindef_posdiag") and not (cls == "hindef_posdiag" and case["cplx"])
                herm = cls in ("herm", "hpd", "hindef_posdiag") or (not case["cplx"] and sym)
                if case["flags"] in (True, "both", "sym_only"):
                    kw["symmetric"] = sym
                if case["flags"] in (True, "both", "herm_only"):
                    kw["hermitian"] = herm
        self.sA = S("A")
        if kind == "LinSolve":
            self.sb, self.sx = S("b"), S("x")
            self.mod = pym.LinSolve([self.sA, self.sb], self.sx, **kw)
            if sol == "nolda":
                self.mod.use_lda_solver = False
            self.outs = [self.sx]
        elif kind == "Inverse":
            self.sB = S("B")
            self.mod = pym.Inverse(self.sA, self.sB)
            self.outs = [self.sB]
        elif kind == "SystemOfEquations":
            npres = max(1, n // 3)
            self.p = np.sort(rng.choice(n, size=npres, replace=False))
            self.f = np.setdiff1d(np.arange(n), self.p)
            if case.get("unsorted"):
                # dof sets in the order the user happens to have them: the values x_p / b_f follow that order
                # (a set that is not handed over is the complement in ascending order)
                if case["part"] in ("prescribed", "both"):
                    self.p = rng.permutation(self.p)
                if case["part"] in ("free", "both"):
                    self.f = rng.permutation(self.f)
            if case["part"] in ("free", "both"):
                kw["free"] = self.f
            if case["part"] in ("prescribed", "both"):
                kw["prescribed"] = self.p
            self.sbf, self.sxp, self.sx, self.sbo = S("bf"), S("xp"), S("x"), S("b")
            self.mod = pym.SystemOfEquations([self.sA, self.sbf, self.sxp], [self.sx, self.sbo], **kw)
            if sol == "nolda":
                self.mod.module_LinSolve.use_lda_solver = False
            self.outs = [self.sx, self.sbo]
        else:
            nm = max(1, n // 3)
            perm = rng.permutation(n)
            self.m = np.sort(perm[:nm])
            self.f = np.sort(perm[nm:nm + max(1, (n - nm) * 2 // 3)])
            self.sR = S("Ared")
            self.mod = pym.StaticCondensation(self.sA, self.sR, main=self.m, free=self.f, **kw)
            self.outs = [self.sR]
        self.a_seed, self.pattern, self.scale, self.pert = case["a0"] + oi, "full", float(case.get("scale0", 1.0)), 0
        self.b_seed, self.k, self.bc = case["b0"] + oi, case["k0"], False
        self.set_A()
        self.set_b()

    def mdesc(self):
        c = self.case
        return dict(n=self.n, cls=c["cls"], cplx=c["cplx"], sparse=None if c["storage"] == "dense" else c["storage"],
                    seed=self.a_seed, pattern=self.pattern, scale=self.scale)

    def set_A(self):
        self.A = G.make_matrix(self.mdesc())
        if self.pert:
            # a small relative change of every entry (1e-6): a new matrix, however close to the previous one
            R = sub_rng(0x72, self.a_seed, self.pert).uniform(-1, 1, self.A.shape)
            if sps.issparse(self.A):
                self.A = self.A.multiply(1.0 + 1e-6 * R).asformat(self.A.format)
            else:
                self.A = self.A * (1.0 + 1e-6 * (R + R.T) / 2)
        # the signal gets its own array in the memory layout a caller may hold (C, Fortran-ordered, transposed view); self.A stays
        # the oracle's private C-ordered copy
        self.sA.state = G.as_layout(self.A.copy(), self.case.get("layout", "C")) if isinstance(self.A, np.ndarray) else self.A.copy()

    def set_b(self):
        n, k = self.n, self.k
        if self.kind == "LinSolve":
            self.b = G.rand_vec(self.b_seed, (n,) if k == 0 else (n, k), self.bc)
            self.sb.state = self.b.copy()
        elif self.kind == "SystemOfEquations":
            self.bf = G.rand_vec(self.b_seed, (len(self.f),) if k == 0 else (len(self.f), k))
            self.xp = G.rand_vec(self.b_seed + 1, (len(self.p),) if k == 0 else (len(self.p), k))
            self.sbf.state, self.sxp.state = self.bf.copy(), self.xp.copy()


def run(case):
    warnings.simplefilter("ignore")
    np.seterr(all="ignore")
    seams.reset_run([7, case["n"]])
    res = dict(trace=[f"K:{case['kind']}:{case['cls']}:{case['storage']}:{case['solver']}"], nontrivial=False, steps=0, probes={},
               faults={}, skipped={}, violations=[], margins={})
    P = res["probes"]

    def probe(k):
        P[k] = P.get(k, 0) + 1

    def viol(clause, msg, at, feats=()):
        res["violations"].append(dict(cls=["C07", clause], msg=msg, at=at,
                                      features=[f"module={case['kind']}", f"cls={case['cls']}", f"storage={case['storage']}",
                                                f"solver={case['solver']}"] + list(feats)))

    nobj = case.get("nobj", 1)
    try:
        insts = [Inst(case, oi) for oi in range(nobj)]
    except Exception as ex:  # noqa
        viol("exception-construct", f"constructing the module raised {type(ex).__name__}: {str(ex)[:200]}", 0)
        return res
    if nobj == 2:
        probe("two_instances_interleaved")
    if case["storage"] == "dense":
        probe("dense_input")
    if case["cplx"]:
        probe("complex_system")
    if case["solver"] == "wrapped":
        probe("prewrapped_lda")
    if case["solver"] == "nolda":
        probe("lda_disabled")
    if case["kind"] == "SystemOfEquations":
        probe({"free": "partition_from_free_only", "prescribed": "partition_from_prescribed_only"}.get(case["part"], "partition_both"))
        if case.get("unsorted"):
            probe("partition_indices_unsorted")
    tol = 1e-6 if case["solver"] == "cg" else 1e-9
    detail = []
    for at, op in enumerate(case["ops"]):
        res["steps"] += 1
        if op["op"] == "fault":
            seams.state["chol_arm"] = int(op.get("arm", 1))
            res["trace"].append("F")
            continue
        I = insts[op.get("o", 0) % nobj]
        if op["op"] == "setA":
            if op.get("pert") and I.nresp > 0:
                I.pert += 1          # same matrix, perturbed relatively by 1e-6
            else:
                I.a_seed, I.pattern, I.pert = op["seed"], op["pattern"], 0      # (the scale is fixed per instance: the previous
                # solution is the next initial guess, a jump of 1e16 in magnitude is not a meaningful history)
            if I.nresp == 0 and not (I.kind == "LinSolve" and I.pattern in ("bothdec", "rowdec", "coldec")):
                # the solver is chosen from the first matrix: it must be generic for its class (a few decoupled dofs keep a
                # LinSolve matrix generic: it is neither diagonal nor of another symmetry class)
                I.pattern = "full"
            if I.kind == "StaticCondensation" and case["solver"] == "cg":
                I.pattern = "full"     # a main dof without coupling to the free dofs gives CG an all-zero column (documented exclusion)
            if sym_like(case["cls"]) and I.pattern in ("rowdec", "coldec"):
                I.pattern = "bothdec"
            I.set_A()
            if I.pattern in ("bothdec", "rowdec", "coldec"):
                probe("decoupled_dofs")
            res["trace"].append(f"A:{I.pattern}")
            continue
        if op["op"] == "setb":
            I.b_seed, I.k = op["seed"], op["k"]
            I.bc = bool(op["cplx"]) and (case["cplx"] or case["storage"] == "dense") and I.kind == "LinSolve"
            I.set_b()
            if I.k:
                probe("block_rhs")
            res["trace"].append(f"b:{I.k}:{'c' if I.bc else 'r'}")
            continue
        if op["op"] == "adj":
            if I.nresp == 0:
                res["trace"].append("adj-skip")
                continue
            try:
                rng = sub_rng(0x71, op["seed"])
                for s in I.outs:
                    st = np.asarray(s.state)
                    w = rng.uniform(-1, 1, st.shape)
                    if np.iscomplexobj(st):
                        w = w + 1j * rng.uniform(-1, 1, st.shape)
                    s.sensitivity = w
                I.mod.sensitivity()
                if op["double"]:
                    I.mod.sensitivity()
                I.mod.reset()
                I.adj_since = True
                probe("adjoint_cycle_between_responses")
            except Exception as ex:  # noqa   sensitivities are not judged here
                res["skipped"][f"adjoint_cycle_raises:{type(ex).__name__}"] = res["skipped"].get(f"adjoint_cycle_raises:{type(ex).__name__}", 0) + 1
                try:
                    I.mod.reset()
                except Exception:  # noqa
                    pass
            res["trace"].append("adj")
            continue
        # ---- response
        f0 = seams.state["chol_forced"] + seams.state["chol_natural"]
        A_before = G.todense(I.A).copy()
        try:
            I.mod.response()
        except Exception as ex:  # noqa
            viol("exception", f"response() #{I.nresp + 1} raised {type(ex).__name__}: {str(ex)[:220]}", at,
                 feats=[f"exc={type(ex).__name__}", f"nresp={min(I.nresp, 1)}"])
            break
        if seams.state["chol_forced"] + seams.state["chol_natural"] > f0:
            probe("cholesky_fallback")
            res["nontrivial"] = True
        key = (I.pattern, I.a_seed, I.b_seed, I.k)
        if I.nresp >= 1 and I.last is not None and key != I.last:
            res["nontrivial"] = True
            if I.last[0] != I.pattern:
                probe("second_response_changed_pattern")
            if I.last[:2] == key[:2]:
                probe("second_response_same_matrix_new_rhs")
        I.last = key
        I.nresp += 1
        Ad = G.todense(I.A)
        if not np.array_equal(G.todense(I.sA.state), A_before):
            viol("input-clobbered", "response() changed the state of the input matrix signal", at)
            break
        worst = 0.0
        if I.kind == "LinSolve":
            x = I.sx.state
            if not hasattr(x, "shape") or tuple(np.shape(x)) != tuple(I.b.shape):
                viol("shape", f"x has shape {np.shape(x)}, b has shape {I.b.shape}", at)
                break
            if not np.iscomplexobj(Ad) and not np.iscomplexobj(I.b) and np.iscomplexobj(x):
                viol("dtype", "complex solution of a real system", at)
                break
            worst = float(np.max(G.rel_residual_cols(Ad, x, I.b)))
            what = "A x = b"
            detail.append(float(np.sum(np.abs(x))))
        elif I.kind == "Inverse":
            B = np.asarray(I.sB.state)
            worst = float(np.max(np.abs(Ad @ B - np.eye(I.n))))
            what = "A B = I"
            detail.append(float(np.sum(np.abs(B))))
        elif I.kind == "SystemOfEquations":
            x, b = np.asarray(I.sx.state), np.asarray(I.sbo.state)
            shp = (I.n,) if I.k == 0 else (I.n, I.k)
            if x.shape != shp or b.shape != shp:
                viol("shape", f"x, b have shapes {x.shape}, {b.shape}; expected {shp}", at)
                break
            if not np.array_equal(x[I.p, ...], I.xp):
                viol("prescribed-values", "x on the prescribed dofs differs from the prescribed values", at)
                break
            if not np.array_equal(b[I.f, ...], I.bf):
                viol("applied-loads", "b on the free dofs differs from the applied loads", at)
                break
            worst = float(np.max(G.rel_residual_cols(Ad, x, b)))
            what = "A x = b on all dofs"
            detail.append(float(np.sum(np.abs(x))))
        else:
            R = np.asarray(I.sR.state)
            m, f = I.m, I.f
            Amm, Amf, Afm, Aff = Ad[np.ix_(m, m)], Ad[np.ix_(m, f)], Ad[np.ix_(f, m)], Ad[np.ix_(f, f)]
            ref = Amm - Amf @ np.linalg.solve(Aff, Afm)
            if R.shape != ref.shape:
                viol("shape", f"condensed matrix has shape {R.shape}, expected {ref.shape}", at)
                break
            worst = float(np.max(np.abs(R - ref))) / max(1.0, float(np.max(np.abs(ref))))
            what = "Ared = Amm - Amf Aff^-1 Afm"
            # the condensed system reproduces the main-dof response of the full system (prescribed dofs clamped)
            bm = G.rand_vec(I.a_seed + 9, (len(m),))
            act = np.concatenate([m, f])
            rhs = np.concatenate([bm, np.zeros(len(f))])
            xfull = np.linalg.solve(Ad[np.ix_(act, act)], rhs)[:len(m)]
            try:
                xred = np.linalg.solve(R, bm)
                worst = max(worst, float(np.max(np.abs(xred - xfull))) / max(1.0, float(np.max(np.abs(xfull)))))
            except np.linalg.LinAlgError:
                worst = float("inf")
            detail.append(float(np.sum(np.abs(R))))
        res["margins"]["defect_over_tol"] = max(res["margins"].get("defect_over_tol", 0.0), worst / tol)
        if not np.isfinite(worst) or worst > tol:
            viol("defining-equation", f"response() #{I.nresp}: {what} violated, defect {worst:.3e} > {tol:.0e} "
                 f"(pattern={I.pattern}, k={I.k})", at, feats=[f"nresp={min(I.nresp - 1, 1)}"])
            break
        res["trace"].append(f"R{I.nresp if I.nresp < 3 else 3}:{I.pattern}:{I.k}")
    res["faults"]["cholesky_fail_forced"] = seams.state["chol_forced"]
    res["faults"]["cholesky_fail_natural"] = seams.state["chol_natural"]
    res["detail"] = repr(detail)
    return res
