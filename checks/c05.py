"""C05 -- Every linear solver solves the requested (transposed/adjoint) system   (state / fault part)

System under test: one real solver object (or two of the same configuration, interleaved) per run: SolverDiagonal,
SolverDenseQR/LU/Cholesky/LDL, SolverSparseLU, CG with every preconditioner (identity, DampedJacobi, SOR, ILU,
GeometricMultigrid one- and two-level) and whatever auto_determine_solver returns.  Histories of update(A_k)/solve(b,
trans, x0) are generated as data; faults: forced Cholesky breakdown (seam) and natural breakdown (Hermitian indefinite
matrix with same-sign diagonal) -> LDL backup, later switch-back; knobs: CG restart/tol/maxit, x0 kinds, smoother knobs.
Oracle: residual of the requested system of the *current* matrix, shape, dtype kind.
The "for every matrix of the class" quantifier is sampled by the workload generator.
"""
import warnings

import numpy as np
import scipy.sparse as sps

from sim import seams
from sim.core import sub_rng
from sim import gen as G

PROP = "C05"
LEVEL = "exploration"
TIERS = {"quick": dict(runs=4000, chunk=100), "thorough": dict(budget_s=480, max_runs=500_000, chunk=200)}
RUN_WALL_CAP = 90
RULE = ("one case = solver configuration (class, knobs) + matrix class + 1-2 solver objects + 3-15 generated operations "
        "{update(A) with redrawn values/pattern (or redrawn FE densities for multigrid), solve(b, trans, x0) with b of shape (n), "
        "(n,1), (n,k), real/complex, with dependent columns; x0 in {none, zero, random, exact, previous}}, cholesky_fail fault ops; "
        "distinct = distinct abstract traces (solver, class, op kinds, trans, rhs shape class, x0 kind, fault outcome); non-trivial "
        "= at least one solve follows a second update, or a fallback/restart/initial-guess path was taken")
PROBES = ["fallback_fired_forced", "fallback_fired_natural", "switched_back_to_cholesky", "cg_converged_at_iteration_0",
          "cg_restart_taken", "two_level_multigrid", "solve_after_second_update", "two_objects_interleaved", "dependent_columns",
          "auto_manual_override", "fortran_ordered_matrix", "block_cg_rank_deficient_at_rounding_limit", "auto_returned_cholesky", "auto_returned_ldl", "auto_returned_lu", "auto_returned_diagonal", "auto_returned_sparselu",
          "trans_T_complex", "trans_H_complex", "rhs_fortran_order", "rhs_strided_view", "matrix_given_to_constructor", "one_by_one_matrix", "same_matrix_object_modified_in_place"]
FAULT_KINDS = ["cholesky_fail_forced", "cholesky_fail_natural"]
COMPONENTS = {"real": ["pymoto.solvers: SolverDiagonal, SolverDenseQR, SolverDenseLU, SolverDenseCholesky, SolverDenseLDL, "
                       "SolverSparseLU, CG, Preconditioner, DampedJacobi, SOR, ILU, GeometricMultigrid, auto_determine_solver",
                       "pymoto.AssembleStiffness/AssemblePoisson (FE matrices for multigrid)", "scipy LAPACK / SuperLU"],
              "stub": ["scipy.linalg.cholesky failure injection (seam)", "simulated clock for CG verbosity prints"]}
ASSUMPTIONS = ["matrix class is fixed per solver object (documented: update = 'a new matrix of the same structure')",
               "documented limitations excluded: complex right-hand side with a real matrix on SuperLU-backed objects, SOR "
               "stand-alone with 1-D right-hand side, all-zero columns handed directly to CG",
               "matrices: strictly diagonally dominant (cond O(10)), ones-type indefinite (cond O(n)), FE matrices with x in [0.1,1]"]
NOT_EXERCISED = ["SolverSparsePardiso, SolverSparseCholeskyScikit, SolverSparseCholeskyCVXOPT (packages not installed)",
                 "scikit-umfpack splu replacement"]

pym = None

SOLVERS = ["diag", "qr", "lu", "chol", "chol_indef", "ldl", "splu", "cg_none", "cg_jacobi", "cg_sor", "cg_ilu", "cg_gmg",
           "cg_gmg2", "auto_dense", "auto_sparse"]
CLASSES = {
    "diag": ["diag"], "qr": ["general", "sym", "tril"], "lu": ["general", "triu", "csym"], "chol": ["spd", "hpd"],
    "chol_indef": ["hindef_posdiag"], "ldl": ["sym", "herm", "csym", "spd", "hindef_posdiag"],
    "splu": ["general", "sym", "spd", "csym", "herm"], "cg_none": ["spd", "hpd"], "cg_jacobi": ["spd", "hpd"],
    "cg_sor": ["spd"], "cg_ilu": ["spd", "hpd"], "cg_gmg": ["fe"], "cg_gmg2": ["fe"],
    "auto_dense": ["diag", "general", "sym", "spd", "herm", "hpd", "csym", "tril", "triu", "hindef_posdiag"],
    "auto_sparse": ["diag", "general", "sym", "spd", "herm", "hpd", "csym"],
}
REAL_ONLY = {"sym", "spd", "tril", "triu", "fe"}
CPLX_ONLY = {"herm", "hpd", "csym"}


def setup():
    global pym
    seams.install()
    pym = seams.import_pymoto()


def gen(rng, idx, tier):
    solver = str(rng.choice(SOLVERS))
    cls = str(rng.choice(CLASSES[solver]))
    cplx = cls in CPLX_ONLY or (cls not in REAL_ONLY and rng.random() < 0.4)
    sparse = None
    if solver in ("splu", "cg_sor", "cg_ilu", "auto_sparse", "cg_gmg", "cg_gmg2"):
        sparse = str(rng.choice(["csc", "csr", "csc_full"])) if solver not in ("cg_ilu", "splu") else str(rng.choice(["csc", "csc_full"]))
        if solver in ("cg_gmg", "cg_gmg2") and sparse == "csc_full":
            sparse = "csc"
    elif solver in ("cg_none", "cg_jacobi", "diag") and rng.random() < 0.5:
        sparse = "csc"
    big = tier == "thorough"
    n = int(rng.integers(1, 25 if big else 13)) if sparse is None else int(rng.integers(3, 61 if big else 31))
    if n == 1 and cls in ("hindef_posdiag", "tril", "triu"):
        n = 2
    knobs = dict(tol=float(rng.choice([1e-5, 1e-7, 1e-9])), restart=int(rng.choice([1, 2, 3, 7, 50])),
                 w=float(rng.choice([0.3, 0.6, 1.0])), wsor=float(rng.choice([0.8, 1.0, 1.5])),
                 smooth_steps=int(rng.choice([1, 2, 5])), cycle=str(rng.choice(["V", "W"])), verbosity=int(rng.choice([0, 0, 1, 2])),
                 smoother=str(rng.choice(["default", "jacobi", "sor"])))
    fe = dict(kind=str(rng.choice(["stiffness", "poisson"])), dim=2 if rng.random() < 0.8 else 3,
              nx=int(rng.choice([2, 4, 6])), ny=int(rng.choice([2, 4])), nz=2, bc=str(rng.choice(["left", "corner"])))
    if solver == "cg_gmg2":
        fe.update(nx=4, ny=4, dim=2)
    if fe["dim"] == 3:
        fe.update(nx=2, ny=2)
    nobj = 2 if rng.random() < 0.2 else 1
    allow_cplx_rhs = cplx or sparse is None and solver not in ("cg_gmg", "cg_gmg2")
    p_cplx_rhs = float(rng.choice([0.0, 0.3, 0.7])) if allow_cplx_rhs else 0.0
    p_update = float(rng.choice([0.1, 0.25, 0.4]))
    p_fault = float(rng.choice([0.0, 0.3, 0.6])) if solver in ("chol", "auto_dense") else 0.0
    scale = float(rng.choice([1.0, 1.0, 1e3, 1e-3, 1e-10, 1e8]))     # one magnitude per solver object history
    ops = []
    for j in range(int(rng.integers(3, 30 if big else 16))):
        o = int(rng.integers(0, nobj))
        if j < nobj or rng.random() < p_update:
            if rng.random() < p_fault:
                ops.append(dict(op="fault", kind="cholesky_fail", arm=1))
            ops.append(dict(op="update", o=(j if j < nobj else o), seed=int(rng.integers(1 << 30)),
                            pattern=str(rng.choice(["full", "full", "banded", "random", "block"])),
                            scale=scale * float(rng.choice([1.0, 1.0, 10.0, 0.1]))))
            # a third of the re-updates hand over the SAME matrix object, modified in place (seeded change C05-7); derived
            # from the op seed so that the generator's random stream is the one of earlier rounds
            ops[-1]["inplace"] = bool(ops[-1]["seed"] % 3 == 0)
        else:
            ops.append(dict(op="solve", o=o, seed=int(rng.integers(1 << 30)), trans=str(rng.choice(["N", "N", "T", "H"])),
                            k=int(rng.choice([0, 0, 1, 2, 3])), cplx=bool(rng.random() < p_cplx_rhs),
                            dep=bool(rng.random() < 0.2), x0=str(rng.choice(["none", "none", "zero", "random", "exact", "previous"]))))
    # truthful manual overrides handed to auto_determine_solver (each "prevents the check" of one matrix property)
    auto_flags = [f for f in ("issymmetric", "ishermitian", "isdiagonal", "islowertriangular", "isuppertriangular", "ispositivedefinite")
                  if rng.random() < 0.3] if solver.startswith("auto") and rng.random() < 0.6 else []
    layout = str(rng.choice(["C", "C", "F", "T"]))      # memory layout of dense matrices as handed to update()
    return dict(solver=solver, cls=cls, cplx=bool(cplx), sparse=sparse, n=n, knobs=knobs, fe=fe, nobj=nobj, ops=ops, auto_flags=auto_flags,
                layout=layout)


def simplify(case):
    import json
    from sim.core import jdump
    if case.get("nobj", 1) > 1:
        c = json.loads(jdump(case))
        c["nobj"] = 1
        yield c
    if case["n"] > 2 and case["cls"] != "fe":
        c = json.loads(jdump(case))
        c["n"] -= 1
        yield c
    for i, op in enumerate(case["ops"]):
        if op["op"] == "solve":
            for key, val in (("x0", "none"), ("k", 0), ("cplx", False), ("dep", False), ("trans", "N")):
                if op[key] != val:
                    c = json.loads(jdump(case))
                    c["ops"][i][key] = val
                    yield c
        if op["op"] == "update":
            for key, val in (("pattern", "full"), ("scale", 1.0)):
                if op[key] != val:
                    c = json.loads(jdump(case))
                    c["ops"][i][key] = val
                    yield c


# ------------------------------------------------------------------------------------------------ construction
_FE_CACHE = {}


def fe_assembler(fe, sparse):
    key = (fe["kind"], fe["dim"], fe["nx"], fe["ny"], fe["nz"], fe["bc"], sparse)
    if key not in _FE_CACHE:
        dom = pym.DomainDefinition(fe["nx"], fe["ny"], fe["nz"] if fe["dim"] == 3 else 0)
        ndof = dom.dim if fe["kind"] == "stiffness" else 1
        if fe["bc"] == "left" or fe["kind"] == "stiffness":
            # (a single clamped node leaves rigid-body rotations in an elasticity matrix: singular, not admissible)
            nodes = dom.nodes[0, ...].flatten() if fe["bc"] == "left" else dom.nodes[:, 0, ...].flatten()
            bc = np.sort(np.concatenate([nodes * ndof + d for d in range(ndof)]))
        else:
            bc = np.arange(ndof)
        sx, sK = pym.Signal("x"), pym.Signal("K")
        mt = sps.csc_matrix if sparse == "csc" else sps.csr_matrix
        if fe["kind"] == "stiffness":
            mod = pym.AssembleStiffness(sx, sK, dom, bc=bc, matrix_type=mt)
        else:
            mod = pym.AssemblePoisson(sx, sK, dom, bc=bc, matrix_type=mt)
        _FE_CACHE[key] = (dom, sx, sK, mod)
    return _FE_CACHE[key]


def make_matrix(case, seed, pattern, scale):
    if case["cls"] == "fe":
        dom, sx, sK, mod = fe_assembler(case["fe"], case["sparse"])
        sx.state = sub_rng(0x50, seed).uniform(0.1, 1.0, dom.nel)
        mod.response()
        return sK.state.copy() * scale
    return G.make_matrix(dict(n=case["n"], cls=case["cls"], cplx=case["cplx"], sparse=case["sparse"], seed=seed,
                              pattern=pattern, scale=scale, layout=case.get("layout", "C")))


def make_solver(case, A_first):
    S = pym.solvers
    k = case["knobs"]
    name = case["solver"]
    cgkw = dict(tol=k["tol"], restart=k["restart"], maxit=5000, verbosity=k["verbosity"])
    if name == "diag":
        return S.SolverDiagonal()
    if name == "qr":
        return S.SolverDenseQR()
    if name == "lu":
        return S.SolverDenseLU()
    if name in ("chol", "chol_indef"):
        return S.SolverDenseCholesky()
    if name == "ldl":
        return S.SolverDenseLDL()
    if name == "splu":
        return S.SolverSparseLU()
    if name == "cg_none":
        return S.CG(preconditioner=S.Preconditioner(), **cgkw)
    if name == "cg_jacobi":
        return S.CG(preconditioner=S.DampedJacobi(w=k["w"]), **cgkw)
    if name == "cg_sor":
        return S.CG(preconditioner=S.SOR(w=k["wsor"]), **cgkw)
    if name == "cg_ilu":
        return S.CG(preconditioner=S.ILU(), **cgkw)
    if name in ("cg_gmg", "cg_gmg2"):
        dom = fe_assembler(case["fe"], case["sparse"])[0]
        sm = None if k["smoother"] == "default" else (S.DampedJacobi(w=k["w"]) if k["smoother"] == "jacobi" else S.SOR(w=1.0))
        inner = None
        if name == "cg_gmg2":
            sub = pym.DomainDefinition(dom.nelx // 2, dom.nely // 2, dom.nelz // 2)
            inner = S.GeometricMultigrid(sub, cycle=k["cycle"], smooth_steps=k["smooth_steps"])
        mg = S.GeometricMultigrid(dom, cycle=k["cycle"], inner_level=inner, smoother=sm, smooth_steps=k["smooth_steps"])
        return S.CG(preconditioner=mg, **cgkw)
    if name in ("auto_dense", "auto_sparse"):
        kw = {}
        if case.get("auto_flags"):
            Ad = G.todense(A_first)
            sym, herm = bool(np.array_equal(Ad, Ad.T)), bool(np.array_equal(Ad, Ad.conj().T))
            truth = dict(issymmetric=sym, ishermitian=herm, isdiagonal=bool(np.array_equal(Ad, np.diag(np.diag(Ad)))),
                         islowertriangular=bool(np.array_equal(Ad, np.tril(Ad))), isuppertriangular=bool(np.array_equal(Ad, np.triu(Ad))),
                         ispositivedefinite=bool(herm and np.min(np.linalg.eigvalsh(Ad)) > 0))
            kw = {f: truth[f] for f in case["auto_flags"]}
        return S.auto_determine_solver(A_first, **kw)
    raise ValueError(name)


def is_iterative(case):
    return case["solver"].startswith("cg")


N_STAG_FAMILY = 40
_STAG_LITERAL = dict(
    A=[[214247.6288250246, 0.0, -64492.60499587253], [0.0, 71704.3000077961, 0.0], [-64492.60499587253, 0.0, 136296.85729065168]],
    rhs=[[0.01705670144824345, 0.9236962599884764, 0.9038089248220045], [0.0, 0.0, 0.0],
         [0.27417158854754153, 0.619360891958119, -0.9600389450905751]],
    x0=[[0.15688539270932036, -0.03220097049798941, -0.16159011536455442], [0.0, 0.0, 0.0],
        [0.1720544164345935, -0.035313746809320694, -0.17722197515001228]])


def enumerated_count(tier):
    # block CG at the limit of what floating point can reach: more right-hand sides than coupled dofs and an initial guess of
    # much larger magnitude than the solution (what LinSolve hands over after the load level dropped).  Case 0 is the literal input
    # of fixed finding C05-F3 (soak VERIF_SEED=31, found through C07), the others are generated the same way
    return N_STAG_FAMILY


def enumerated_case(i, tier):
    return dict(stagnation=i, solver="cg_none", cls="spd", cplx=False, sparse="csc", n=3, knobs=dict(tol=1e-11), ops=[])


def run_stagnation(case):
    """ CG(tol=1e-11).solve(B, x0) must return (not raise) with a residual the data allow """
    i = int(case["stagnation"])
    res = dict(trace=[f"stagnation:{min(i, 1)}"], nontrivial=True, steps=1, probes={"block_cg_rank_deficient_at_rounding_limit": 1}, faults={},
               skipped={}, violations=[], margins={})
    if i == 0:
        A, B, X0 = (np.array(_STAG_LITERAL[k]) for k in ("A", "rhs", "x0"))
    else:
        rng = sub_rng(0x5A, i)
        n = 3 + i % 3
        M = rng.standard_normal((n, n))
        A = (M @ M.T + n * np.eye(n)) * 1e5
        dec = list(rng.permutation(n)[:n - 2])        # all but two dofs are decoupled
        for d in dec:
            A[d, :] = 0.0
            A[:, d] = 0.0
            A[d, d] = 7e4 * (1 + rng.random())
        B = rng.uniform(-1, 1, (n, 3))
        B[dec, :] = 0.0
        X0 = rng.uniform(-0.2, 0.2, (n, 3))
        X0[dec, :] = 0.0
    S = pym.solvers
    try:
        sol = S.CG(tol=1e-11, maxit=300, preconditioner=S.Preconditioner(), verbosity=0)
        sol.update(sps.csc_matrix(A))
        X = sol.solve(B.copy(), x0=X0.copy())
    except Exception as ex:  # noqa
        res["violations"].append(dict(cls=["C05", "exception"], msg=f"CG.solve raised {type(ex).__name__}: {str(ex)[:120]} for a block of "
                                      f"3 right-hand sides on a {A.shape[0]}x{A.shape[0]} system with 2 coupled dofs and an initial guess",
                                      at=0, features=["solver=cg_none", "stagnation_family"]))
        return res
    r = float(np.max(np.linalg.norm(A @ X - B, axis=0) / np.linalg.norm(B, axis=0)))
    res["margins"]["stagnation_residual_over_1e-9"] = r / 1e-9
    if not r <= 1e-9:
        res["violations"].append(dict(cls=["C05", "residual"], msg=f"relative residual {r:.3e} > 1e-9 (stagnation family {i})", at=0,
                                      features=["solver=cg_none", "stagnation_family"]))
    res["detail"] = f"{r:.3e}"
    return res


def run(case):
    warnings.simplefilter("ignore")
    np.seterr(all="ignore")
    import contextlib
    import io
    if "stagnation" in case:
        seams.reset_run([5, 3])
        return run_stagnation(case)
    seams.reset_run([5, case["n"]])
    res = dict(trace=[f"S:{case['solver']}:{case['cls']}:{'c' if case['cplx'] else 'r'}:{case['sparse']}"], nontrivial=False,
               steps=0, probes={}, faults={}, skipped={}, violations=[], margins={})
    P = res["probes"]

    def probe(k):
        P[k] = P.get(k, 0) + 1

    def viol(clause, msg, at, feats=()):
        res["violations"].append(dict(cls=["C05", clause], msg=msg, at=at,
                                      features=[f"solver={case['solver']}", f"cls={case['cls']}"] + list(feats)))

    nobj = case.get("nobj", 1)
    if nobj == 2:
        probe("two_objects_interleaved")
    objs = [dict(solver=None, A=None, live=None, nupd=0, prev=None, chol_ok=None) for _ in range(nobj)]
    tol = case["knobs"]["tol"]
    bound = 2 * tol if is_iterative(case) else 1e-9
    out = io.StringIO()
    detail = []
    n = None
    for at, op in enumerate(case["ops"]):
        res["steps"] += 1
        if op["op"] == "fault":
            seams.state["chol_arm"] = int(op.get("arm", 1))
            res["trace"].append("F")
            continue
        ob = objs[op.get("o", 0) % nobj]
        if op["op"] == "update":
            pattern = op["pattern"]
            if ob["solver"] is None and case["solver"].startswith("auto") and case["cls"] != "diag":
                pattern = "full"     # auto_determine_solver inspects the first matrix: it must be generic for its class
            if op.get("inplace") and ob.get("live") is not None and ob["solver"] is not None:
                A = ob["live"]              # same object as before, new content: scaled in place, then update(A) again
                c_ = (3.0, 0.25)[(op["seed"] // 3) % 2]
                if isinstance(A, np.ndarray):
                    A *= c_
                else:
                    A.data *= c_
                probe("same_matrix_object_modified_in_place")
            else:
                A = make_matrix(case, op["seed"], pattern, op["scale"])
            ob["live"] = A
            A_ref = A.copy()                # the oracle's own copy, taken before the solver sees the matrix
            if isinstance(A, np.ndarray) and not A.flags.c_contiguous:
                probe("fortran_ordered_matrix")
            n = A.shape[0]
            f_forced, f_nat = seams.state["chol_forced"], seams.state["chol_natural"]
            try:
                with contextlib.redirect_stdout(out):
                    if ob["solver"] is None:
                        ob["solver"] = make_solver(case, A)
                        if op["seed"] % 4 == 0 and not case["solver"].startswith(("auto", "cg_gmg")) and hasattr(ob["solver"], "__class__"):
                            # the documented alternative: hand the matrix to the constructor (calls update right away)
                            try:
                                cls_ = type(ob["solver"])
                                if cls_.__name__ in ("SolverDiagonal", "SolverDenseQR", "SolverDenseLU", "SolverDenseCholesky",
                                                     "SolverDenseLDL", "SolverSparseLU"):
                                    ob["solver"] = cls_(A)
                                    probe("matrix_given_to_constructor")
                            except TypeError:
                                pass
                        tn = type(ob["solver"]).__name__
                        if case["solver"].startswith("auto") and case.get("auto_flags"):
                            probe("auto_manual_override")
                        if case["solver"].startswith("auto"):
                            probe({"SolverDenseCholesky": "auto_returned_cholesky", "SolverDenseLDL": "auto_returned_ldl",
                                   "SolverDenseLU": "auto_returned_lu", "SolverDiagonal": "auto_returned_diagonal",
                                   "SolverSparseLU": "auto_returned_sparselu"}.get(tn, "auto_returned_other"))
                    ob["solver"].update(A)
            except Exception as ex:  # noqa
                viol("exception-update", f"update() raised {type(ex).__name__}: {str(ex)[:200]}", at,
                     feats=[f"exc={type(ex).__name__}"])
                break
            if case["solver"] == "cg_gmg2":
                probe("two_level_multigrid")
            forced = seams.state["chol_forced"] > f_forced
            natural = seams.state["chol_natural"] > f_nat
            if forced:
                probe("fallback_fired_forced")
                res["nontrivial"] = True
            if natural:
                probe("fallback_fired_natural")
                res["nontrivial"] = True
            if ob["chol_ok"] is False and not forced and not natural and seams.state["chol_calls"] > 0 \
                    and type(ob["solver"]).__name__ == "SolverDenseCholesky":
                probe("switched_back_to_cholesky")
            if type(ob["solver"]).__name__ == "SolverDenseCholesky":
                ob["chol_ok"] = not (forced or natural)
            ob["A"] = A_ref
            if A.shape[0] == 1:
                probe("one_by_one_matrix")
            ob["nupd"] += 1
            ob["prev"] = None
            res["trace"].append(f"U:{op['pattern']}:{'F' if forced else ('N' if natural else '-')}")
            continue
        # ---- solve
        if ob["solver"] is None or ob["A"] is None:
            res["trace"].append("S-skip")
            continue
        A = ob["A"]
        n = A.shape[0]
        Ad = G.todense(A)
        trans = op["trans"]
        cplx_ok = case["cplx"] or (case["sparse"] is None and case["solver"] not in ("cg_gmg", "cg_gmg2"))
        cplx_b = bool(op["cplx"]) and cplx_ok
        k = op["k"]
        shape = (n,) if k == 0 else (n, k)
        b = G.rand_vec(op["seed"], shape, cplx_b)
        if op["dep"] and k >= 2:
            b[:, 1] = -1.5 * b[:, 0]
            probe("dependent_columns")
        lay = op["seed"] % 5          # memory layout of the right-hand side (same values)
        if lay == 1 and k >= 2:
            b = np.asfortranarray(b)
            probe("rhs_fortran_order")
        elif lay == 2:
            b = np.repeat(b, 2, axis=0)[::2]        # strided view
            probe("rhs_strided_view")
        elif lay == 3 and k == 0:
            b = b[::-1][::-1]                       # view with a base
        M = G.opmat(A, trans)
        x0 = None
        if op["x0"] == "zero":
            x0 = np.zeros(shape, dtype=np.result_type(b, Ad))
        elif op["x0"] == "random":
            xe = np.linalg.solve(M, b)
            x0 = xe + float(np.max(np.abs(xe))) * G.rand_vec(op["seed"] + 3, shape, cplx_b or case["cplx"])    # wrong, but of the right magnitude
        elif op["x0"] == "exact":
            x0 = np.linalg.solve(M, b).astype(np.result_type(b, Ad))
        elif op["x0"] == "previous" and ob["prev"] is not None and ob["prev"].shape == shape:
            x0 = ob["prev"].copy()
            if not (np.iscomplexobj(b) or case["cplx"]):
                x0 = np.ascontiguousarray(x0.real)      # a real system gets a real initial guess
        if x0 is not None and not np.iscomplexobj(x0) and (cplx_b or case["cplx"]):
            x0 = x0.astype(complex)
        b_keep = b.copy()
        x0_keep = None if x0 is None else x0.copy()
        try:
            with contextlib.redirect_stdout(out):
                x = ob["solver"].solve(b, x0=x0, trans=trans) if x0 is not None else ob["solver"].solve(b, trans=trans)
        except Exception as ex:  # noqa
            viol("exception", f"solve(shape={shape}, trans={trans}, x0={op['x0']}, complex_b={cplx_b}) raised "
                 f"{type(ex).__name__}: {str(ex)[:200]}", at, feats=[f"exc={type(ex).__name__}", f"trans={trans}"])
            break
        if case["cplx"] and trans == "T":
            probe("trans_T_complex")
        if case["cplx"] and trans == "H":
            probe("trans_H_complex")
        if ob["nupd"] >= 2:
            probe("solve_after_second_update")
            res["nontrivial"] = True
        if x0 is not None:
            res["nontrivial"] = True
        txt = out.getvalue()
        if "Converged in 0 iterations" in txt:
            probe("cg_converged_at_iteration_0")
        out.seek(0)
        out.truncate()
        if is_iterative(case) and case["knobs"]["restart"] <= 3:
            probe("cg_restart_taken")
            res["nontrivial"] = True
        if not np.array_equal(b, b_keep):
            viol("rhs-mutated", "solve() modified the caller's right-hand side", at)
            break
        if x0 is not None and not np.array_equal(x0, x0_keep):
            viol("x0-mutated", "solve() modified the caller's initial guess", at)
            break
        if not hasattr(x, "shape") or tuple(x.shape) != tuple(shape):
            viol("shape", f"solve returned shape {getattr(x, 'shape', None)} for right-hand side of shape {shape}", at,
                 feats=[f"trans={trans}"])
            break
        if not np.iscomplexobj(Ad) and not np.iscomplexobj(b) and np.iscomplexobj(x):
            viol("dtype", "complex solution for a real system", at)
            break
        if not np.all(np.isfinite(x)):
            viol("residual", f"non-finite solution (trans={trans}, x0={op['x0']})", at, feats=[f"trans={trans}"])
            break
        rr = G.rel_residual_cols(A, x, b, trans)
        worst = float(np.max(rr))
        res["margins"]["residual_over_bound"] = max(res["margins"].get("residual_over_bound", 0.0), worst / bound)
        if worst > bound:
            viol("residual", f"relative residual {worst:.3e} > {bound:.1e} for solve(shape={shape}, trans={trans}, x0={op['x0']}, "
                 f"complex_b={cplx_b}) after {ob['nupd']} update(s)", at, feats=[f"trans={trans}", f"x0={op['x0']}"])
            break
        ob["prev"] = np.array(x)
        detail.append(float(np.sum(np.abs(x))))
        res["trace"].append(f"V:{trans}:{'c' if cplx_b else 'r'}{k}:{op['x0'] if x0 is not None else 'none'}:"
                            f"{'fb' if ob['chol_ok'] is False else '-'}")
    res["faults"]["cholesky_fail_forced"] = seams.state["chol_forced"]
    res["faults"]["cholesky_fail_natural"] = seams.state["chol_natural"]
    res["detail"] = repr(detail)
    return res
