"""C17 -- the optimality-criteria update keeps bounds, move limit and volume.

System under test: real pymoto.minimize_oc.  The *environment* is a harness network computing f = sum_i c_i / x_i over
1-4 variable signals (Python floats, 1-element arrays, vectors).  A recorder module placed first in the network snapshots
every design the loop evaluates; the states left in the signals after the call are the last design.

Oracle per transition x_k -> x_{k+1} (simulated time = optimiser iterations):
  bounds        xmin <= x_{k+1} <= xmax                                   (1e-12*scale slack; observed excess 0)
  move          |x_{k+1} - x_k| <= move per variable                      (rounding slack only)
  volume        |sum x_{k+1} - maxvol| <= allowance of the plateau-aware reference volume model, whenever maxvol is
                reachable within the move limits and the multiplier lies inside [l1init, l2init]
  write-back    every signal keeps its size and every variable equals the clipped OC target for *one common* multiplier
                inside the bracket the bisection can end in (reference model, independent bisection)
  convergence   with tolx = tolf = 0 and maxit >= 2*ceil(range/move)+8 the last design is the water-filling optimum
                x_i = clip(sqrt(c_i / lambda*), xmin, xmax), sum x = maxvol

Reference volume model: V(lam) = sum clip(sqrt(c/lam), max(xmin, x-move), min(xmax, x+move)) is continuous and
non-increasing but has plateaus (all variables clipped; +move and -move cancel exactly when maxvol = sum x_k).  The real
loop's predicate `V(lmid) - maxvol > 0` is only decided by rounding noise on a plateau, so the model takes the whole root
set  [lam_a, lam_b] = {lam : |V(lam) - maxvol| <= delta}  (own bisection to machine precision, delta = 1e-12*scale) and
admits every multiplier within l1l2tol of it: the last bisection midpoint provably lies in
[lam_a - l1l2tol, lam_b + l1l2tol] intersected with [l1init, l2init].
"""
import contextlib
import io
import json
import warnings

import numpy as np

from sim import seams
from sim.core import sub_rng, jdump

PROP = "C17"
LEVEL = "exploration"
TIERS = {"quick": dict(runs=8000, chunk=100), "thorough": dict(budget_s=480, max_runs=1_000_000, chunk=200)}
RUN_WALL_CAP = 60
RULE = ("one case = one minimize_oc run on f = sum c_i/x_i: 1-4 variable signals (Python float / 1-element array / vector, "
        "n <= 12), c from a seed, xmin/xmax scalar or per-variable, move scalar or per-variable (0.05..1.5 of the box width), "
        "maxvol None / fraction of [sum xmin, sum xmax] / above sum xmax / below sum xmin, start point random / on lower / on "
        "upper / mixed on bounds, l1init, l2init, l1l2tol, stopping tolerances zero or default, one-module or per-signal "
        "network; distinct = distinct abstract traces (configuration classes + per-iteration outcome class: volume "
        "reachable?, plateau?, variable on bound?, move limit active?); non-trivial = at least two updates were judged and "
        "at least one of them had a clipped variable")
PROBES = ["unreachable_volume", "variable_on_bound", "move_limit_active", "plateau_root_set", "multiplier_outside_bracket",
          "per_variable_bounds", "per_variable_move", "float_signal", "arr1_signal", "vector_signal", "multi_signal",
          "maxvol_none", "maxvol_above_sum_xmax", "maxvol_below_sum_xmin", "start_on_bound", "early_stop_by_tolerance",
          "convergence_judged", "final_design_not_evaluated", "per_signal_network", "multiplier_far_below_bracket_resolution", "signals_share_initial_array", "variable_is_index_array_slice"]
FAULT_KINDS = []
COMPONENTS = {"real": ["pymoto.minimize_oc", "pymoto.Network / Module backpropagation", "pymoto.utils._concatenate_to_array"],
              "stub": ["environment network f = sum c_i/x_i with recorder module (harness code by design)"]}
ASSUMPTIONS = ["objective gradients are strictly negative (c_i > 0, x > 0): the documented domain of the OC method",
               "the start design lies inside [xmin, xmax] (it is user input, not a design produced by minimize_oc)",
               "l2init - l1init > l1l2tol (otherwise the bisection loop body never runs)",
               "write-back is judged against the OC update x*sqrt(-df/lam) clipped to bounds and move limits, the update "
               "that the parameters l1init/l2init/l1l2tol of minimize_oc document"]
NOT_EXERCISED = ["fault kinds: none apply (no I/O, no solver fallback, no randomness in minimize_oc)",
                 "objectives with positive gradient entries (clipped with a warning by the library)"]

pym = None
_cls = {}


def setup():
    global pym
    seams.install()
    pym = seams.import_pymoto()
    if _cls:
        return

    class C17Recorder(pym.Module):
        """ no outputs: snapshots the variable states at every network response """
        def _prepare(self, log):
            self.log = log

        def _response(self, *xs):
            self.log.append([np.array(x, dtype=float).ravel().copy() for x in xs])
            return []

        def _sensitivity(self):
            return [None for _ in self.sig_in]

    class C17Recip(pym.Module):
        """ f = sum c / x over the concatenation of all inputs """
        def _prepare(self, c):
            self.c = np.asarray(c, dtype=float)

        def _response(self, *xs):
            self.shapes = [np.shape(x) for x in xs]
            self.xx = np.concatenate([np.asarray(x, dtype=float).ravel() for x in xs])
            return float(np.sum(self.c / self.xx))

        def _sensitivity(self, df):
            g = -self.c / self.xx ** 2 * df
            out, k = [], 0
            for sh in self.shapes:
                sz = int(np.prod(sh)) if len(sh) else 1
                out.append(float(g[k]) if len(sh) == 0 else g[k:k + sz].reshape(sh).copy())
                k += sz
            return out

    class C17Sum(pym.Module):
        def _response(self, *fs):
            self.k = len(fs)
            return float(sum(float(f) for f in fs))

        def _sensitivity(self, df):
            return [float(df) for _ in range(self.k)]

    _cls.update(rec=C17Recorder, recip=C17Recip, sum=C17Sum)


# ------------------------------------------------------------------------------------------------ generation
def gen(rng, idx, tier):
    nsig = int(rng.choice([1, 1, 2, 2, 3, 4]))
    sigs, ntot = [], 0
    for _ in range(nsig):
        kind = str(rng.choice(["float", "arr1", "vec", "vec", "vec"]))
        n = int(rng.integers(2, 6)) if kind == "vec" else 1
        if ntot + n > 12:
            kind, n = "arr1", 1
        sigs.append(dict(kind=kind, n=n))
        ntot += n
    rmin = 0.1 if tier == "quick" else 0.05
    ratio = float(rng.choice([r for r in [0.05, 0.1, 0.2, 0.4, 1.5] if r >= rmin]))
    move_mode = "var" if rng.random() < 0.2 else "scalar"
    steps = int(np.ceil(1.0 / (ratio * (0.5 if move_mode == "var" else 1.0))))
    tol0 = bool(rng.random() < 0.75)
    case = dict(
        sigs=sigs, pseed=int(rng.integers(1 << 30)), cscale=float(rng.choice([0.1, 1.0, 10.0])),
        lo=float(rng.choice([0.02, 0.1, 0.5, 1.0])), width=float(rng.choice([0.5, 1.0, 3.0])),
        min_mode=str(rng.choice(["scalar", "scalar", "var"])), max_mode=str(rng.choice(["scalar", "scalar", "var"])),
        move_ratio=ratio, move_mode=move_mode,
        maxvol=str(rng.choice(["none", "frac", "frac", "frac", "over", "under"])), frac=float(rng.uniform(0.05, 0.95)),
        x0=str(rng.choice(["rand", "rand", "lower", "upper", "mixed", "mid"])),
        l1init=float(rng.choice([0.0, 0.0, 1e-3])), l2init=float(rng.choice([1e5, 1e5, 1e4, 50.0])),
        l1l2tol=float(rng.choice([1e-4, 1e-4, 1e-6, 1e-9])),
        tolx=0.0 if tol0 else 1e-4, tolf=0.0 if tol0 else 1e-4,
        maxit=2 * steps + 8, net=str(rng.choice(["single", "per_signal"])), ops=[])
    case["share"] = bool(rng.random() < 0.3)
    case["slicevar"] = bool(rng.random() < 0.2)
    if rng.random() < 0.15:
        # objective of another magnitude with the multiplier bracket / tolerance the user scales along with it: the multiplier is
        # ~1e-14 .. 1e-6 (or 1e8) and has to be resolved far below the resolution of floating point numbers near l2init.
        # Volume target = start volume (always reachable; a bisection that runs into the upper end of a bracket whose floating point
        # spacing exceeds l1l2tol does not terminate -- such inputs are not admissible)
        cs = float(rng.choice([1e-14, 1e-10, 1e-6, 1e6]))
        case.update(cscale=cs, l1init=0.0, l1l2tol=cs * float(rng.choice([1e-6, 1e-4])), l2init=float(rng.choice([1e5, cs * 1e7])) if cs < 1 else cs * 1e7,
                    maxvol="none", x0=str(rng.choice(["rand", "mid", "mixed", "upper"])), fine=True)
    return case


def simplify(case):
    def mod(**kw):
        c = json.loads(jdump(case))
        c.update(kw)
        return c
    if len(case["sigs"]) > 1:
        for k in range(len(case["sigs"])):
            c = json.loads(jdump(case))
            del c["sigs"][k]
            yield c
    for k, s in enumerate(case["sigs"]):
        if s["kind"] == "vec" and s["n"] > 2:
            c = json.loads(jdump(case))
            c["sigs"][k]["n"] = s["n"] - 1
            yield c
    for key, val in (("min_mode", "scalar"), ("max_mode", "scalar"), ("move_mode", "scalar"), ("net", "single"),
                     ("x0", "mid"), ("maxvol", "frac"), ("l1init", 0.0), ("l2init", 1e5), ("l1l2tol", 1e-4), ("cscale", 1.0),
                     ("lo", 0.5), ("width", 1.0), ("tolx", 0.0), ("tolf", 0.0)):
        if case.get(key) != val:
            yield mod(**{key: val})
    if case["maxit"] > 2:
        yield mod(maxit=max(2, case["maxit"] // 2))
        yield mod(maxit=case["maxit"] - 1)


# ------------------------------------------------------------------------------------------------ reference model
def _r(v):
    return repr(float(v))


def _target(lam, c, lo, hi):
    if lam <= 0.0:
        return hi.copy()
    return np.clip(np.sqrt(c / lam), lo, hi)


def _sup(pred, a, b):
    """ sup{lam in [a, b] : pred(lam)} for a predicate that is true below a threshold and false above (a if none) """
    if not pred(a):
        return a
    if pred(b):
        return b
    for _ in range(300):
        mid = 0.5 * (a + b)
        if mid <= a or mid >= b:
            break
        if pred(mid):
            a = mid
        else:
            b = mid
    return 0.5 * (a + b)


def root_set(c, lo, hi, maxvol, l1, l2, delta):
    lam_a = _sup(lambda t: _target(t, c, lo, hi).sum() > maxvol + delta, l1, l2)
    lam_b = _sup(lambda t: _target(t, c, lo, hi).sum() >= maxvol - delta, l1, l2)
    return lam_a, max(lam_a, lam_b)


def build(case):
    sizes = [s["n"] if s["kind"] == "vec" else 1 for s in case["sigs"]]
    n = int(sum(sizes))
    rng = sub_rng(0x17, case["pseed"])
    c = case["cscale"] * rng.uniform(0.2, 3.0, n)
    lo = np.full(n, case["lo"]) * (rng.uniform(1.0, 2.0, n) if case["min_mode"] == "var" else 1.0)
    top = float(lo.max()) + case["width"]
    hi = (lo + case["width"] * rng.uniform(0.5, 1.0, n)) if case["max_mode"] == "var" else np.full(n, top)
    wid = float(np.max(hi - lo))
    mv = case["move_ratio"] * wid * (rng.uniform(0.5, 1.5, n) if case["move_mode"] == "var" else np.ones(n))
    u = rng.random(n)
    pick = rng.integers(0, 3, n)
    if case["x0"] == "rand":
        x0 = lo + u * (hi - lo)
    elif case["x0"] == "lower":
        x0 = lo.copy()
    elif case["x0"] == "upper":
        x0 = hi.copy()
    elif case["x0"] == "mid":
        x0 = 0.5 * (lo + hi)
    else:
        x0 = np.where(pick == 0, lo, np.where(pick == 1, hi, lo + u * (hi - lo)))
    if case["maxvol"] == "none":
        maxvol = None
    elif case["maxvol"] == "frac":
        maxvol = float(lo.sum() + case["frac"] * (hi.sum() - lo.sum()))
    elif case["maxvol"] == "over":
        maxvol = float(hi.sum() * 1.1 + 0.1)
    else:
        maxvol = float(lo.sum() * 0.9)
    return sizes, n, c, lo, hi, mv, x0, maxvol


# ------------------------------------------------------------------------------------------------ run + oracle
def run(case):
    warnings.simplefilter("ignore")
    np.seterr(all="ignore")
    res = dict(trace=[], nontrivial=False, steps=0, probes={}, faults={}, skipped={}, violations=[], margins={}, detail="")
    P, S, M = res["probes"], res["skipped"], res["margins"]

    def probe(k, c=1):
        P[k] = P.get(k, 0) + c

    def skip(k):
        S[k] = S.get(k, 0) + 1

    def margin(k, v):
        M[k] = max(M.get(k, 0.0), float(v))

    sizes, n, c, lo, hi, mv, x0, maxvol = build(case)
    # two equally sized vector signals may be initialised from the *same* array object (x0 = np.full(n, v); Signal('a', x0);
    # Signal('b', x0)): legal -- Signal does not copy and the optimiser has no business writing into the caller's arrays
    shared = {}
    if case.get("share"):
        cum0 = np.concatenate([[0], np.cumsum(sizes)])
        vec = [i for i, s_ in enumerate(case["sigs"]) if s_["kind"] == "vec"]
        for a_ in vec:
            for b_ in vec:
                if a_ < b_ and sizes[a_] == sizes[b_] and b_ not in shared and a_ not in shared and a_ not in shared.values():
                    sa, sb = slice(cum0[a_], cum0[a_ + 1]), slice(cum0[b_], cum0[b_ + 1])
                    lo_, hi_ = np.maximum(lo[sa], lo[sb]), np.minimum(hi[sa], hi[sb])
                    if np.all(lo_ <= hi_):
                        x0[sa] = x0[sb] = np.clip(x0[sa], lo_, hi_)
                        shared[b_] = a_
    feats = [f"nsig={len(sizes)}", f"kinds={'/'.join(s['kind'] for s in case['sigs'])}", f"min={case['min_mode']}",
             f"max={case['max_mode']}", f"move={case['move_mode']}", f"maxvol={case['maxvol']}", f"net={case['net']}"]

    def viol(clause, msg, at):
        res["violations"].append(dict(cls=["C17", clause], msg=msg, at=at, features=feats))

    Signal = pym.Signal
    sig, k = [], 0
    for i, (s, sz) in enumerate(zip(case["sigs"], sizes)):
        if s["kind"] == "float":
            st = float(x0[k])
            probe("float_signal")
        elif s["kind"] == "arr1":
            st = np.array([x0[k]])
            probe("arr1_signal")
        else:
            st = x0[k:k + sz].copy()
            probe("vector_signal")
            if i in shared:
                st = sig[shared[i]].state                # the very same array object
                probe("signals_share_initial_array")
            elif case.get("slicevar") and sz >= 2:
                # the variable is a SignalSlice with an index array (its state getter hands out a copy): scattered entries of a
                # larger signal
                idx_ = sub_rng(0x171, case["pseed"], i).permutation(sz + 3)[:sz]
                base_ = np.full(sz + 3, -3.0)
                base_[idx_] = st
                sig.append(Signal(f"X{i}", state=base_)[idx_])
                probe("variable_is_index_array_slice")
                k += sz
                continue
        sig.append(Signal(f"x{i}", state=st))
        k += sz
    if len(sig) > 1:
        probe("multi_signal")
    if case["min_mode"] == "var" or case["max_mode"] == "var":
        probe("per_variable_bounds")
    if case["move_mode"] == "var":
        probe("per_variable_move")
    cum = np.concatenate([[0], np.cumsum(sizes)])
    log = []
    mods = [_cls["rec"](list(sig), [], log)]
    sf = Signal("f")
    if case["net"] == "per_signal" and len(sig) > 1:
        probe("per_signal_network")
        parts = []
        for i, s in enumerate(sig):
            p = Signal(f"f{i}")
            mods.append(_cls["recip"]([s], [p], c[cum[i]:cum[i + 1]]))
            parts.append(p)
        mods.append(_cls["sum"](parts, [sf]))
    else:
        mods.append(_cls["recip"](list(sig), [sf], c))
    net = pym.Network(mods)

    xmin = lo.copy() if case["min_mode"] == "var" else float(case["lo"])
    xmax = hi.copy() if case["max_mode"] == "var" else float(hi[0])
    move = mv.copy() if case["move_mode"] == "var" else float(mv[0])
    l1, l2, tol = float(case["l1init"]), float(case["l2init"]), float(case["l1l2tol"])
    maxit = int(case["maxit"])
    mvol = float(np.sum(x0)) if maxvol is None else maxvol
    if maxvol is None:
        probe("maxvol_none")
    if case.get("fine"):
        probe("multiplier_far_below_bracket_resolution")
    if mvol > hi.sum():
        probe("maxvol_above_sum_xmax")
    if mvol < lo.sum():
        probe("maxvol_below_sum_xmin")
    if np.any(x0 == lo) or np.any(x0 == hi):
        probe("start_on_bound")
    res["trace"].append("cfg:" + ",".join(feats) + f",x0={case['x0']},tol0={case['tolx'] == 0.0},l1={l1 > 0},l2={l2:g},n={n}")

    exc = None
    buf = io.StringIO()
    try:
        with contextlib.redirect_stdout(buf):
            pym.minimize_oc(net, list(sig), sf, tolx=case["tolx"], tolf=case["tolf"], maxit=maxit, xmin=xmin, xmax=xmax,
                            move=move, l1init=l1, l2init=l2, l1l2tol=tol, maxvol=maxvol, verbosity=0)
    except Exception as ex:  # noqa
        exc = ex
    # designs: every evaluated one + what is left in the signals
    designs = [(d, "evaluated") for d in log]
    try:
        final = [np.array(s.state, dtype=float).ravel().copy() for s in sig]
    except Exception as ex:  # noqa
        final = None
        if exc is None:
            exc = ex
    if final is not None and (exc is None):
        same_as_last = len(log) > 0 and len(final) == len(log[-1]) and all(
            a.shape == b.shape and np.array_equal(a, b) for a, b in zip(final, log[-1]))
        if not same_as_last:
            designs.append((final, "final"))
            probe("final_design_not_evaluated")
        elif case["tolx"] > 0 and len(log) < maxit:
            probe("early_stop_by_tolerance")

    scale = 1.0 + float(np.max(np.abs(hi)))
    delta = 1e-12 * scale * n
    atol = 1e-10 * scale
    btol = 1e-12 * scale      # np.clip is exact on the unchanged tree (observed excess 0); a few ulp are not a defect
    judged, clipped_seen = 0, False
    xprev = x0.copy()
    det = []
    for k in range(1, len(designs)):
        res["steps"] += 1
        segs, what = designs[k]
        # ---- sizes (segment identity part 1)
        szs = [int(a.size) for a in segs]
        if szs != list(sizes):
            viol("write-back", f"design {k} ({what}): signal sizes {szs} differ from the sizes {list(sizes)} of the variable "
                 f"signals that were handed in", k)
            res["trace"].append("it:SIZE")
            break
        x = np.concatenate(segs)
        if not np.all(np.isfinite(x)):
            viol("bounds", f"design {k} ({what}) is not finite: {x.tolist()}", k)
            res["trace"].append("it:NAN")
            break
        # ---- bounds
        exb = max(float(np.max(lo - x)), float(np.max(x - hi)))
        margin("bound_excess_over_tol", max(exb, 0.0) / btol)
        if exb > btol:
            j = int(np.argmax(np.maximum(lo - x, x - hi)))
            viol("bounds", f"design {k} ({what}): variable {j} = {_r(x[j])} outside [{_r(lo[j])}, {_r(hi[j])}]", k)
            res["trace"].append("it:BOUND")
            break
        # ---- move limit
        step = np.abs(x - xprev)
        exm = float(np.max(step - mv))
        margin("move_excess_over_tol", max(exm, 0.0) / atol)
        if exm > atol:
            j = int(np.argmax(step - mv))
            viol("move", f"design {k} ({what}): variable {j} moved by {_r(step[j])} > move limit {_r(mv[j])} "
                 f"(from {_r(xprev[j])} to {_r(x[j])})", k)
            res["trace"].append("it:MOVE")
            break
        # ---- reference volume model for this transition
        lok, hik = np.maximum(lo, xprev - mv), np.minimum(hi, xprev + mv)
        V1, V2 = float(_target(l1, c, lok, hik).sum()), float(_target(l2, c, lok, hik).sum())
        reachable = (V1 >= mvol - delta) and (V2 <= mvol + delta)
        lam_a, lam_b = root_set(c, lok, hik, mvol, l1, l2, delta)
        tol_eff = tol * (1 + 1e-9) + 1e-13 * lam_b
        lam_lo, lam_hi = max(lam_a - tol_eff, l1), min(lam_b + tol_eff, l2)
        t_hi, t_lo = _target(lam_lo, c, lok, hik), _target(lam_hi, c, lok, hik)      # largest / smallest admissible design
        plateau = (lam_b - lam_a) > 10 * tol_eff
        vol = float(x.sum())
        tok = "it:"
        if not reachable:
            probe("unreachable_volume")
            skip("volume_not_judged_unreachable")
            if float(lok.sum()) <= mvol <= float(hik.sum()):
                probe("multiplier_outside_bracket")      # reachable by the move limits, but not with lam in [l1init, l2init]
            tok += "U"
        else:
            allow = max(float(t_hi.sum()) - mvol, mvol - float(t_lo.sum()), 0.0) + 10 * delta
            err = abs(vol - mvol)
            margin("volume_error_over_allowance", err / allow)
            det.append(f"{err:.3e}/{allow:.3e}")
            if err > allow:
                viol("volume", f"design {k} ({what}): total volume {_r(vol)} differs from maxvol {_r(mvol)} by {err:.3e}, the "
                     f"bisection tolerance {tol:g} on the multiplier (root set [{lam_a:.6g}, {lam_b:.6g}]) admits {allow:.3e}; "
                     f"reachable range within move limits [{_r(float(lok.sum()))}, {_r(float(hik.sum()))}]", k)
                res["trace"].append(tok + "VOL")
                break
            tok += "R"
            judged += 1
        if plateau:
            probe("plateau_root_set")
            tok += "p"
        # ---- write-back / segment identity part 2: one common multiplier explains every variable
        below, above = float(np.max(t_lo - x)), float(np.max(x - t_hi))
        margin("oc_target_excess_over_tol", max(below, above, 0.0) / atol)
        if max(below, above) > atol:
            j = int(np.argmax(np.maximum(t_lo - x, x - t_hi)))
            own = int(np.searchsorted(cum, j, side="right") - 1)
            viol("write-back", f"design {k} ({what}): variable {j} (signal {own}, c={_r(c[j])}) = {_r(x[j])} is not the clipped OC "
                 f"target for any multiplier the bisection can end in: admissible [{_r(t_lo[j])}, {_r(t_hi[j])}] "
                 f"(previous value {_r(xprev[j])}, move {_r(mv[j])}, bounds [{_r(lo[j])}, {_r(hi[j])}])", k)
            res["trace"].append(tok + "WB")
            break
        onb = bool(np.any(x <= lo) or np.any(x >= hi))
        onm = bool(np.any(step >= mv * (1 - 1e-9)))
        if onb:
            probe("variable_on_bound")
            tok += "b"
        if onm:
            probe("move_limit_active")
            tok += "m"
        if reachable and (onb or onm):
            clipped_seen = True
        res["trace"].append(tok)
        xprev = x
    else:
        # ---- exception / convergence only when every transition was clean
        if exc is not None:
            viol("exception", f"minimize_oc raised {type(exc).__name__}: {str(exc)[:300]} after {len(log)} evaluated designs", len(log))
            res["trace"].append("EXC:" + type(exc).__name__)
        elif len(designs) >= 1:
            _convergence(case, res, len(log), designs, c, lo, hi, mv, mvol, l1, l2, tol, delta, atol, maxit, viol, probe, skip, margin)
    if exc is not None and not res["violations"]:
        viol("exception", f"minimize_oc raised {type(exc).__name__}: {str(exc)[:300]}", len(log))
        res["trace"].append("EXC:" + type(exc).__name__)
    res["nontrivial"] = judged >= 2 and clipped_seen
    res["detail"] = f"n={n} designs={len(designs)} vol={det[:3]}"
    return res


def _convergence(case, res, nlog, designs, c, lo, hi, mv, mvol, l1, l2, tol, delta, atol, maxit, viol, probe, skip, margin):
    if not (case["tolx"] == 0.0 and case["tolf"] == 0.0):
        skip("convergence_not_judged_stopping_tolerance")
        res["trace"].append("conv:skip-tol")
        return
    wid = float(np.max(hi - lo))
    need = 2 * int(np.ceil(wid / float(np.min(mv)))) + 8
    if maxit < need or nlog < maxit:
        skip("convergence_not_judged_maxit_too_small")
        res["trace"].append("conv:skip-maxit")
        return
    # water-filling optimum on the full box, multiplier inside the bracket
    lam_a, lam_b = root_set(c, lo, hi, mvol, l1, l2, delta)
    V1, V2 = float(_target(l1, c, lo, hi).sum()), float(_target(l2, c, lo, hi).sum())
    if mvol < lo.sum() - delta:
        skip("convergence_not_judged_infeasible_volume")
        res["trace"].append("conv:skip-infeasible")
        return
    if V2 > mvol + delta or not (V1 >= mvol - delta or V1 >= hi.sum() - delta):
        skip("convergence_not_judged_multiplier_outside_bracket")
        res["trace"].append("conv:skip-bracket")
        return
    tol_eff = tol * (1 + 1e-9) + 1e-13 * lam_b
    t_hi = _target(max(lam_a - 2 * tol_eff, l1), c, lo, hi)
    t_lo = _target(min(lam_b + 2 * tol_eff, l2), c, lo, hi)
    x = np.concatenate(designs[-1][0])
    exc_ = max(float(np.max(t_lo - x)), float(np.max(x - t_hi)))
    probe("convergence_judged")
    margin("optimum_excess_over_tol", max(exc_, 0.0) / (100 * atol))
    # iterations actually needed (margin of the liveness bound)
    first = None
    for k in range(len(designs)):
        xk = np.concatenate(designs[k][0])
        if max(float(np.max(t_lo - xk)), float(np.max(xk - t_hi))) <= 100 * atol:
            first = k
            break
    if first is not None:
        margin("iterations_needed_over_bound", first / float(need))
    if exc_ > 100 * atol:
        j = int(np.argmax(np.maximum(t_lo - x, x - t_hi)))
        viol("convergence", f"after {len(designs) - 1} updates (bound {need}) variable {j} = {_r(x[j])} is not at the analytic "
             f"optimum clip(sqrt(c/lambda*)) in [{_r(t_lo[j])}, {_r(t_hi[j])}] (lambda* in [{lam_a:.8g}, {lam_b:.8g}], "
             f"sum x = {_r(float(x.sum()))}, maxvol = {_r(mvol)})", len(designs) - 1)
        res["trace"].append("conv:FAIL")
    else:
        res["trace"].append("conv:ok")
