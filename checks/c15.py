"""C15 -- DyadCarrier behaves exactly like the dense matrix it represents.

System under test: a pool of real pymoto.DyadCarrier objects, each shadowed by a dense matrix (or the marker Z for the
unshaped empty carrier, the neutral element).  Operation programs are generated as data; after every step the result
is compared with the dense computation and *every other* pool member with its shadow (no operand mutated, no storage
shared) -- the history dimension.
"""
import signal
import warnings

import numpy as np
import scipy.sparse as sps

from sim import seams
from sim.core import sub_rng

PROP = "C15"
LEVEL = "exploration"
TIERS = {"quick": dict(runs=30000, chunk=500), "thorough": dict(budget_s=480, max_runs=5_000_000, chunk=500)}
RULE = ("one case = matrix dims (n,m)<=5 and a program of <=12 operations on a pool of <=6 DyadCarriers (construction from "
        "vector lists / blocks / symmetric / empty shaped / unshaped, + - neg pos, += -= (also with itself), add_dyad, scalar and "
        "matrix products from both sides, @/dot with vectors, T, conj, real, imag, diagonal(k), element/row/column/slice/"
        "index-array access, zeroing rows/columns, contract (plain, dense, sliced, batched, sparse, contract_multi), copy); results "
        "re-enter the pool; distinct = distinct abstract traces (op, operand emptiness, dtype kinds); non-trivial = the program "
        "contains an in-place operation on a pooled object or an operation on a carrier with zero dyads or a real/complex mixture")
PROBES = ["empty_operand", "unshaped_operand", "inplace_on_pooled", "complex_times_real", "self_inplace", "batched_contract",
          "sparse_contract", "index_array_access", "zeroing", "block_construction", "result_reentered_pool"]
FAULT_KINDS = ["aliasing_probe_inplace", "aliasing_probe_self_operand"]
COMPONENTS = {"real": ["pymoto.DyadCarrier"], "stub": []}
ASSUMPTIONS = ["the unshaped empty carrier DyadCarrier() is the neutral element of + and - (its dense shadow is 'zero of any shape')",
               "complex/real type is judged only where it is determined: a result with non-zero imaginary part must be complex, a "
               "result of purely real operands must be real",
               "min()/max() are documented approximations and are not judged"]
NOT_EXERCISED = ["opt_einsum back-end (not installed)"]

pym = None
Z = "Z"   # shadow of the unshaped empty carrier


def setup():
    global pym
    seams.install()
    pym = seams.import_pymoto()


UNARY = ["neg", "pos", "copy", "T", "conj", "real", "imag", "smul", "rsmul", "diag", "get", "zero_rows", "zero_cols",
         "contract", "matmul_mat", "rmatmul_mat", "matmul_vec", "rmatmul_vec", "dot_vec", "dot_mat", "add_dense",
         "radd_dense", "rsub_dense", "add_zero", "add_dyad", "todense", "iadd_self", "isub_self", "multi"]
BINARY = ["add", "sub", "iadd", "isub"]


def gen(rng, idx, tier):
    n, m = int(rng.integers(1, 9 if tier == "thorough" else 6)), int(rng.integers(1, 9 if tier == "thorough" else 6))
    if rng.random() < 0.3:
        m = n
    ops = []
    en_u = [k for k in UNARY if rng.random() < 0.7]
    en_b = [k for k in BINARY if rng.random() < 0.85]
    pc = float(rng.choice([0.0, 0.3, 0.6]))
    pe = float(rng.choice([0.05, 0.2, 0.4]))
    nnew = int(rng.integers(1, 4))
    for i in range(nnew):
        ops.append(_new(rng, pc, pe))
    for _ in range(int(rng.integers(1, 30 if tier == "thorough" else 12))):
        r = rng.random()
        if r < 0.12:
            ops.append(_new(rng, pc, pe))
        elif r < 0.45 and en_b:
            ops.append(_op(rng, str(rng.choice(en_b)), pc))
        elif en_u:
            ops.append(_op(rng, str(rng.choice(en_u)), pc))
        else:
            ops.append(_op(rng, "copy", pc))
    return dict(n=n, m=m, ops=ops)


def _new(rng, pc, pe):
    kind = "vecs"
    r = rng.random()
    if r < pe:
        kind = str(rng.choice(["empty_shaped", "unshaped"]))
    elif r < pe + 0.12:
        kind = "block"
    elif r < pe + 0.22:
        kind = "sym"
    return dict(op="new", kind=kind, k=int(rng.integers(1, 4)), cu=bool(rng.random() < pc), cv=bool(rng.random() < pc),
                tr=bool(rng.random() < 0.3), seed=int(rng.integers(1 << 30)))


def _op(rng, name, pc):
    return dict(op=name, a=int(rng.integers(0, 64)), b=int(rng.integers(0, 64)), seed=int(rng.integers(1 << 30)),
                cplx=bool(rng.random() < pc), k=int(rng.integers(-2, 3)), sub=int(rng.integers(0, 12)))


def simplify(case):
    import json
    from sim.core import jdump
    for key in ("n", "m"):
        if case[key] > 1:
            c = json.loads(jdump(case))
            c[key] -= 1
            yield c
    for i, op in enumerate(case["ops"]):
        for key, val in (("cu", False), ("cv", False), ("cplx", False), ("k", 1), ("tr", False)):
            if key in op and op[key] != val:
                c = json.loads(jdump(case))
                c["ops"][i][key] = val
                yield c


# ------------------------------------------------------------------------------------------------ helpers
_POOL_R = np.array([0.0, 0.0, 1.0, -1.0, 2.0])
_POOL_C = np.array([0.0, 0.0, 1.0, -1.0, 1j, -1j, 1 + 1j, 1 - 1j, 2.0, 3j])


def rv(rng, shape, cplx):
    if rng.random() < 0.15:
        # structured data: exact zeros, zero vectors, and complex vectors whose *unconjugated* square sum vanishes although they
        # are not zero ([1, 1j, 0], [1+1j, 1-1j]): bilinear and sesquilinear forms differ on those
        v = rng.choice(_POOL_C if cplx else _POOL_R, size=shape)
        return v.astype(complex) if cplx else v.astype(float)
    v = rng.uniform(-1, 1, shape)
    if cplx:
        v = v + 1j * rng.uniform(-1, 1, shape)
    return v


class _Alarm(Exception):
    pass


def _with_alarm(fn, seconds=2.0):
    """ run fn() under a short inner wall cap (for operations whose failure mode is non-termination) """
    def h(sig, frm):
        raise _Alarm()
    old = signal.signal(signal.SIGALRM, h)
    rem = signal.setitimer(signal.ITIMER_REAL, seconds)
    try:
        return fn(), False
    except _Alarm:
        return None, True
    finally:
        signal.setitimer(signal.ITIMER_REAL, 0)
        signal.signal(signal.SIGALRM, old)
        if rem[0] > 0:
            signal.setitimer(signal.ITIMER_REAL, max(rem[0] - seconds, 1.0))


def close(a, b, tol=1e-11):
    a, b = np.asarray(a), np.asarray(b)
    if a.shape != b.shape:
        return False
    sc = max(1.0, float(np.max(np.abs(b))) if b.size else 1.0)
    return bool(np.all(np.abs(a - b) <= tol * sc))


# ------------------------------------------------------------------------------------------------ run
def run(case):
    warnings.simplefilter("ignore")
    np.seterr(all="ignore")
    DC = pym.DyadCarrier
    n0, m0 = case["n"], case["m"]
    res = dict(trace=[], nontrivial=False, steps=0, probes={}, faults={}, skipped={}, violations=[])
    P = res["probes"]

    def probe(k):
        P[k] = P.get(k, 0) + 1

    def viol(clause, msg, at, feats=()):
        res["violations"].append(dict(cls=["C15", clause], msg=msg, at=at, features=list(feats)))

    pool = []   # entries: [carrier, shadow(dense ndarray or Z), all_real(bool)]

    def check_member(j, at, what):
        d, sh, _ = pool[j]
        try:
            td = d.todense()
        except Exception as ex:  # noqa
            viol("exception", f"todense() of pool member {j} raised {type(ex).__name__} after {what}", at)
            return False
        if isinstance(sh, str):
            if d.shape != (-1, -1) and np.any(td != 0):
                viol("operand-mutated", f"pool member {j} (unshaped empty) changed after {what}", at)
                return False
            return True
        if td.shape != sh.shape or not close(td, sh):
            viol("operand-mutated", f"pool member {j} no longer equals its dense shadow after {what} (it was not the "
                 f"target of an in-place operation)", at, feats=[f"op={what}"])
            return False
        return True

    def put(d, sh, allreal, at, what):
        """ result re-enters the pool """
        if len(pool) < 6:
            pool.append([d, sh, allreal])
        else:
            pool[at % 6] = [d, sh, allreal]
        probe("result_reentered_pool")

    def check_result_dyad(d, exp, allreal, at, what):
        """ d: DyadCarrier result, exp: dense ndarray or Z """
        if not isinstance(d, DC):
            viol("type", f"{what} returned {type(d).__name__} instead of a DyadCarrier", at, feats=[f"op={what}"])
            return None
        try:
            td = d.todense()
        except Exception as ex:  # noqa
            viol("exception", f"todense() of the result of {what} raised {type(ex).__name__}: {str(ex)[:100]}", at)
            return None
        if isinstance(exp, str):
            if np.any(td != 0):
                viol("value", f"{what} on the empty carrier gave a non-zero matrix", at, feats=[f"op={what}"])
                return None
            return Z if d.shape == (-1, -1) else np.zeros(d.shape)
        if d.shape == (-1, -1):
            if not close(exp, np.zeros_like(exp)):
                viol("value", f"{what} returned an unshaped empty carrier but the dense result is non-zero", at, feats=[f"op={what}"])
                return None
            return Z
        if tuple(d.shape) != tuple(exp.shape) or td.shape != exp.shape:
            viol("shape", f"{what}: result shape {d.shape} (dense {td.shape}) but dense computation gives {exp.shape}", at,
                 feats=[f"op={what}"])
            return None
        if not close(td, exp):
            viol("value", f"{what}: result differs from the dense computation (max abs diff {np.max(np.abs(td - exp)):.3e})", at,
                 feats=[f"op={what}"])
            return None
        if allreal and (np.iscomplexobj(td) or d.iscomplex()):
            viol("dtype", f"{what}: complex result from purely real operands", at, feats=[f"op={what}"])
            return None
        # (an imaginary part at rounding level in the dense shadow -- 3j*(a + b) with a = -b up to one ulp -- is no imaginary part:
        # the carrier may have cancelled it exactly and dropped the zero dyad)
        if np.any(np.abs(np.imag(exp)) > 1e-11 * max(1.0, float(np.max(np.abs(exp))) if exp.size else 1.0)) and not d.iscomplex():
            viol("dtype", f"{what}: iscomplex() is False but the result has a non-zero imaginary part", at, feats=[f"op={what}"])
            return None
        return exp

    def check_result_dense(val, exp, allreal, at, what):
        val = np.asarray(val)
        exp = np.asarray(exp)
        if val.shape != exp.shape:
            viol("shape", f"{what}: returned shape {val.shape}, dense computation gives {exp.shape}", at, feats=[f"op={what}"])
            return False
        if not close(val, exp):
            viol("value", f"{what}: returned value differs from the dense computation (max abs diff "
                 f"{np.max(np.abs(val - exp)) if val.size else 0:.3e})", at, feats=[f"op={what}"])
            return False
        if allreal and np.iscomplexobj(val):
            viol("dtype", f"{what}: complex value from purely real operands", at, feats=[f"op={what}"])
            return False
        return True

    for at, op in enumerate(case["ops"]):
        res["steps"] += 1
        name = op["op"]
        rng = sub_rng(0x15, op["seed"])
        target_inplace = None
        what = name
        try:
            if name == "new":
                n, m = (m0, n0) if op.get("tr") else (n0, m0)
                kind, k = op["kind"], op["k"]
                if kind == "sym":
                    m = n
                if kind == "unshaped":
                    d, sh = DC(), Z
                    probe("unshaped_operand")
                elif kind == "empty_shaped":
                    d, sh = DC(shape=(n, m)), np.zeros((n, m))
                    probe("empty_operand")
                elif kind == "vecs":
                    us = [rv(rng, n, op["cu"]) for _ in range(k)]
                    vs = [rv(rng, m, op["cv"]) for _ in range(k)]
                    d = DC([u.copy() for u in us], [v.copy() for v in vs])
                    sh = sum(np.outer(u, v) for u, v in zip(us, vs))
                elif kind == "sym":
                    us = [rv(rng, n, op["cu"]) for _ in range(k)]
                    d = DC([u.copy() for u in us])
                    sh = sum(np.outer(u, u) for u in us)
                elif kind == "block":
                    U, V = rv(rng, (2, n), op["cu"]), rv(rng, (2, m), op["cv"])
                    d = DC([U.copy()], [V.copy()])
                    sh = np.outer(U.sum(axis=0), V.sum(axis=0))
                    probe("block_construction")
                allreal = not ((op["cu"] or op["cv"]) and kind in ("vecs", "sym", "block")) or \
                    (kind == "sym" and not op["cu"])
                if kind in ("vecs", "block") and (op["cu"] != op["cv"]):
                    probe("complex_times_real")
                    res["nontrivial"] = True
                what = f"new:{kind}"
                shn = check_result_dyad(d, sh, allreal, at, what)
                if shn is None:
                    res["trace"].append(what + ":X")
                    break
                if kind in ("unshaped", "empty_shaped"):
                    res["nontrivial"] = True
                put(d, shn, allreal, at, what)
                res["trace"].append(f"{what}:{'c' if not allreal else 'r'}")
                continue

            if not pool:
                res["trace"].append("skip")
                continue
            ia = op["a"] % len(pool)
            A, SA, RA = pool[ia]
            emptyA = isinstance(SA, str) or A.n_dyads == 0
            if emptyA:
                probe("empty_operand")
                res["nontrivial"] = True
            if isinstance(SA, str):
                probe("unshaped_operand")
            tag = f"{name}:{'Z' if isinstance(SA, str) else ('e' if emptyA else 'd')}{'r' if RA else 'c'}"

            if isinstance(SA, str) and name not in ("neg", "pos", "copy", "T", "conj", "smul", "rsmul", "add", "sub", "iadd",
                                                     "isub", "todense", "add_zero"):
                res["trace"].append(tag + ":skipZ")
                continue
            n, m = (None, None) if isinstance(SA, str) else SA.shape
            cplx = op["cplx"]
            out_d = out_v = None       # DyadCarrier result + expected, or value result + expected
            allreal = RA

            if name in BINARY:
                # partner with the same shape (or the unshaped empty carrier); otherwise a fresh one
                ib = None
                for off in range(len(pool)):
                    j = (op["b"] + off) % len(pool)
                    SB = pool[j][1]
                    if isinstance(SB, str) or isinstance(SA, str) or SB.shape == SA.shape:
                        ib = j
                        break
                if name in ("iadd", "isub") and ib == ia:
                    ib = None if len(pool) == 1 else next((j for j in range(len(pool)) if j != ia and
                                                           (isinstance(pool[j][1], str) or isinstance(SA, str) or
                                                            pool[j][1].shape == SA.shape)), None)
                if ib is None:
                    if isinstance(SA, str):
                        res["trace"].append(tag + ":nopartner")
                        continue
                    us, vs = [rv(rng, n, cplx)], [rv(rng, m, False)]
                    B, SB, RB = DC(us, vs), np.outer(us[0], vs[0]), not cplx
                else:
                    B, SB, RB = pool[ib]
                if isinstance(SB, str):
                    probe("unshaped_operand")
                    res["nontrivial"] = True
                elif B.n_dyads == 0:
                    probe("empty_operand")
                    res["nontrivial"] = True
                if RA != RB:
                    probe("complex_times_real")
                    res["nontrivial"] = True
                allreal = RA and RB
                sgn = 1 if name in ("add", "iadd") else -1
                if isinstance(SA, str) and isinstance(SB, str):
                    exp = Z
                elif isinstance(SA, str):
                    exp = sgn * SB
                elif isinstance(SB, str):
                    exp = SA.copy()
                else:
                    exp = SA + sgn * SB
                if name == "add":
                    out_d = A + B
                elif name == "sub":
                    out_d = A - B
                else:
                    ident = id(A)
                    if name == "iadd":
                        A += B
                    else:
                        A -= B
                    if id(A) != ident:
                        viol("inplace-identity", f"{name} rebound the target to a new object", at)
                    out_d, target_inplace = A, ia
                    probe("inplace_on_pooled")
                    res["faults"]["aliasing_probe_inplace"] = res["faults"].get("aliasing_probe_inplace", 0) + 1
                    res["nontrivial"] = True
                out_exp = exp
            elif name in ("iadd_self", "isub_self"):
                if isinstance(SA, str):
                    res["trace"].append(tag + ":skipZ")
                    continue
                probe("self_inplace")
                res["faults"]["aliasing_probe_self_operand"] = res["faults"].get("aliasing_probe_self_operand", 0) + 1
                res["nontrivial"] = True

                def fn():
                    nonlocal A
                    if name == "iadd_self":
                        A += A
                    else:
                        A -= A
                    return A
                _, hung = _with_alarm(fn, 2.0)
                if hung:
                    viol("hang", f"{'A += A' if name == 'iadd_self' else 'A -= A'} did not terminate within 2 s "
                         f"(n_dyads={len(pool[ia][0].v)} and growing)", at, feats=[f"op={name}"])
                    res["trace"].append(tag + ":HANG")
                    break
                out_d, out_exp, target_inplace = A, (2 * SA if name == "iadd_self" else 0 * SA), ia
            elif name == "neg":
                out_d, out_exp = -A, (Z if isinstance(SA, str) else -SA)
            elif name == "pos":
                out_d, out_exp = +A, (Z if isinstance(SA, str) else SA.copy())
            elif name == "copy":
                out_d, out_exp = A.copy(), (Z if isinstance(SA, str) else SA.copy())
            elif name == "T":
                out_d, out_exp = (A.T if op["k"] % 2 else A.transpose()), (Z if isinstance(SA, str) else SA.T.copy())
            elif name == "conj":
                out_d, out_exp = A.conj(), (Z if isinstance(SA, str) else SA.conj())
            elif name == "real":
                out_d, out_exp, allreal = A.real, np.real(SA).copy(), True
            elif name == "imag":
                out_d, out_exp, allreal = A.imag, np.imag(SA).copy(), True
            elif name in ("smul", "rsmul"):
                c = complex(rng.uniform(-2, 2), rng.uniform(-2, 2)) if cplx else float(rng.uniform(-2, 2))
                if op["sub"] == 0:
                    c = 0.0
                allreal = RA and not cplx
                out_d = (A * c) if name == "smul" else (c * A)
                out_exp = Z if isinstance(SA, str) else SA * c
            elif name == "add_dyad":
                u, v = rv(rng, n, cplx), rv(rng, m, False)
                fac = None if op["sub"] % 2 else float(rng.uniform(-2, 2))
                A.add_dyad([u.copy()], [v.copy()], fac=fac) if fac is not None else A.add_dyad([u.copy()], [v.copy()])
                out_d, out_exp, target_inplace = A, SA + (1.0 if fac is None else fac) * np.outer(u, v), ia
                allreal = RA and not cplx
                probe("inplace_on_pooled")
                res["nontrivial"] = True
            elif name in ("matmul_mat", "dot_mat"):
                p = int(rng.integers(1, 5))
                M = rv(rng, (m, p), cplx)
                allreal = RA and not cplx
                out_d, out_exp = (A @ M if name == "matmul_mat" else A.dot(M)), SA @ M
            elif name == "rmatmul_mat":
                p = int(rng.integers(1, 5))
                M = rv(rng, (p, n), cplx)
                allreal = RA and not cplx
                out_d, out_exp = M @ A, M @ SA
            elif name in ("matmul_vec", "dot_vec"):
                x = rv(rng, m, cplx)
                allreal = RA and not cplx
                out_v, out_exp = (A @ x if name == "matmul_vec" else A.dot(x)), SA @ x
            elif name == "rmatmul_vec":
                x = rv(rng, n, cplx)
                allreal = RA and not cplx
                out_v, out_exp = x @ A, x @ SA
            elif name in ("add_dense", "radd_dense", "rsub_dense"):
                Dn = rv(rng, (n, m), cplx)
                allreal = RA and not cplx
                if name == "add_dense":
                    out_v, out_exp = A + Dn, SA + Dn
                elif name == "radd_dense":
                    out_v, out_exp = Dn + A, Dn + SA
                else:
                    out_v, out_exp = Dn - A, Dn - SA
            elif name == "add_zero":
                out_d, out_exp = (A + 0 if op["sub"] % 2 else 0 + A), (Z if isinstance(SA, str) else SA.copy())
            elif name == "todense":
                out_v, out_exp = (A.todense() if op["sub"] % 2 else A.toarray()), (np.zeros((0, 0)) if isinstance(SA, str) else SA)
            elif name == "diag":
                kk = op["k"]
                out_v, out_exp = A.diagonal(kk), np.diagonal(SA, kk)
                if abs(kk) >= max(n, m):
                    out_exp = np.zeros(0)
            elif name == "get":
                s = op["sub"] % 8
                i, j = int(rng.integers(0, n)), int(rng.integers(0, m))
                i2, j2 = int(rng.integers(i, n)) + 1, int(rng.integers(j, m)) + 1
                ra = rng.permutation(n)[:int(rng.integers(1, n + 1))]
                ca = rng.permutation(m)[:int(rng.integers(1, m + 1))]
                L = min(len(ra), len(ca))
                subs = [(i, j), (i, slice(None)), (slice(None), j), (slice(i, i2), slice(j, j2)), (ra[:L], ca[:L]),
                        (ra, slice(j, j2)), (slice(i, i2), ca), (slice(i, i2), j)][s]
                if s in (4, 5, 6):
                    probe("index_array_access")
                what = f"get[{['ii', 'row', 'col', 'slsl', 'arrarr', 'arrsl', 'slarr', 'slcol'][s]}]"
                r_ = A[subs]
                exp_ = SA[subs]
                if isinstance(r_, DC):
                    out_d, out_exp = r_, np.asarray(exp_)
                else:
                    out_v, out_exp = r_, exp_
            elif name in ("zero_rows", "zero_cols"):
                dim = n if name == "zero_rows" else m
                if op["sub"] % 2:
                    lo = int(rng.integers(0, dim))
                    sel = slice(lo, int(rng.integers(lo, dim)) + 1)
                else:
                    sel = rng.permutation(dim)[:int(rng.integers(1, dim + 1))]
                exp = SA.copy()
                if name == "zero_rows":
                    A[sel, :] = 0.0
                    exp[sel, :] = 0
                else:
                    A[:, sel] = 0.0
                    exp[:, sel] = 0
                out_d, out_exp, target_inplace = A, exp, ia
                probe("zeroing")
                probe("inplace_on_pooled")
                res["nontrivial"] = True
            elif name in ("contract", "multi"):
                s = op["sub"] % 11 if name == "contract" else 11
                Pn = int(rng.integers(1, 4))
                r = int(rng.integers(1, n + 1))
                c = int(rng.integers(1, m + 1))
                allreal = RA and not cplx
                kinds = ["trace", "mat", "rows", "cols", "rowscols", "batchmat", "batchrows", "batchall", "sparse", "rc_nomat",
                         "batchrows_mat", "multi"]
                what = f"contract[{kinds[s]}]"
                if s == 0:
                    if n != m:
                        res["trace"].append(tag + ":skip")
                        continue
                    out_v, out_exp = A.contract(), np.trace(SA)
                    allreal = RA
                elif s == 1:
                    B = rv(rng, (n, m), cplx)
                    out_v, out_exp = A.contract(B), np.sum(SA * B)
                elif s == 2:
                    rows = rng.integers(0, n, r)
                    B = rv(rng, (r, m), cplx)
                    out_v, out_exp = A.contract(B, rows), np.sum(SA[rows, :] * B)
                elif s == 3:
                    cols = rng.integers(0, m, c)
                    B = rv(rng, (n, c), cplx)
                    out_v, out_exp = A.contract(B, cols=cols), np.sum(SA[:, cols] * B)
                elif s == 4:
                    rows, cols = rng.integers(0, n, r), rng.integers(0, m, c)
                    B = rv(rng, (r, c), cplx)
                    out_v, out_exp = A.contract(B, rows, cols), np.sum(SA[np.ix_(rows, cols)] * B)
                elif s == 5:
                    B = rv(rng, (Pn, n, m), cplx)
                    out_v, out_exp = A.contract(B), np.array([np.sum(SA * B[p]) for p in range(Pn)])
                    probe("batched_contract")
                elif s == 6:
                    rows = rng.integers(0, n, (Pn, r))
                    B = rv(rng, (r, m), cplx)
                    out_v, out_exp = A.contract(B, rows), np.array([np.sum(SA[rows[p], :] * B) for p in range(Pn)])
                    probe("batched_contract")
                elif s == 7:
                    rows, cols = rng.integers(0, n, (Pn, r)), rng.integers(0, m, (Pn, c))
                    B = rv(rng, (Pn, r, c), cplx)
                    out_v = A.contract(B, rows, cols)
                    out_exp = np.array([np.sum(SA[np.ix_(rows[p], cols[p])] * B[p]) for p in range(Pn)])
                    probe("batched_contract")
                elif s == 8:
                    Bd = rv(rng, (n, m), cplx) * (rng.random((n, m)) < 0.6)
                    B = sps.csc_matrix(Bd) if op["k"] % 2 else sps.coo_matrix(Bd)
                    out_v, out_exp = A.contract(B), np.sum(SA * Bd)
                    probe("sparse_contract")
                elif s == 9:
                    L = int(rng.integers(1, min(n, m) + 1))
                    rows, cols = rng.integers(0, n, L), rng.integers(0, m, L)
                    out_v, out_exp = A.contract(rows=rows, cols=cols), np.sum(SA[rows, cols])
                    allreal = RA
                elif s == 10:
                    rows = rng.integers(0, n, (Pn, r))
                    B = rv(rng, (Pn, r, m), cplx)
                    out_v, out_exp = A.contract(B, rows), np.array([np.sum(SA[rows[p], :] * B[p]) for p in range(Pn)])
                    probe("batched_contract")
                else:
                    mats, exps = [], []
                    for p in range(Pn):
                        if rng.random() < 0.2:
                            mats.append(None)
                            exps.append(0.0)
                        else:
                            Bd = rv(rng, (n, m), cplx) * (rng.random((n, m)) < 0.6)
                            mats.append(sps.coo_matrix(Bd))
                            exps.append(np.sum(SA * Bd))
                    if mats[0] is None:   # the result type is taken from the first matrix (documented dtype argument)
                        mats[0], exps[0] = sps.coo_matrix(np.zeros((n, m), dtype=complex if cplx else float)), 0.0
                    out_v, out_exp = A.contract_multi(mats), np.array(exps)
                    probe("sparse_contract")
            else:
                raise ValueError(name)
        except _Alarm:
            raise
        except Exception as ex:  # noqa
            if type(ex).__name__ == "RunTimeout":
                raise
            viol("exception", f"{what} raised {type(ex).__name__}: {str(ex)[:160]}", at,
                 feats=[f"op={what}", f"exc={type(ex).__name__}"])
            res["trace"].append(f"{name}:EXC")
            break

        # ---- compare the result
        ok = True
        if out_d is not None:
            shn = check_result_dyad(out_d, out_exp, allreal, at, what)
            ok = shn is not None
            if ok:
                if target_inplace is not None:
                    pool[target_inplace] = [out_d, shn, allreal]
                else:
                    put(out_d, shn, allreal, at, what)
        elif out_v is not None:
            ok = check_result_dense(out_v, out_exp, allreal, at, what)
        # ---- every other pool member still equals its shadow
        if ok:
            for j in range(len(pool)):
                if not check_member(j, at, what):
                    ok = False
                    break
        res["trace"].append(tag + ("" if ok else ":X"))
        if not ok:
            break
    return res
