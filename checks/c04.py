"""C04 -- Backpropagation is linear in the seed, accumulative and leaves states untouched.

System under test: one real library module at a time from the module zoo (sim/zoo.py).  Histories of
{response, seed by reference, sensitivity x k, reset, new inputs} are generated as data.  The oracle is purely
metamorphic (no differentiation): g(a*w1+b*w2) = a*g(w1)+b*g(w2); k calls add k*g; bitwise snapshots of all states are
unchanged by sensitivity()/reset(); response() leaves input states and all sensitivities untouched.
"""
import warnings

import numpy as np

from sim import seams, zoo

PROP = "C04"
LEVEL = "exploration"
TIERS = {"quick": dict(runs=6000, chunk=100), "thorough": dict(budget_s=480, max_runs=1_000_000, chunk=400)}
RUN_WALL_CAP = 60
RULE = ("one case = one zoo module config (kind, 2D/3D mesh, boundary conditions, paddings, kernels, print directions, solver "
        "classes, real/complex, one/many right-hand sides, active sets, scaling) + scalars (a,b) + a generated list of episodes "
        "{measure seed w1 | w2 | a*w1+b*w2 with k in 1..3 sensitivity() calls, partial seed mask, response() between seeding "
        "and sensitivity} and {new inputs}; seeds are handed over by reference; distinct = distinct abstract traces (module kind, "
        "option class, episode kinds); non-trivial = the history contains a k>=2 episode, a partial seed or a completed "
        "linearity triple")
PROBES = ["partial_seed", "k3_repeats", "dyadcarrier_sensitivity", "linearity_triple_checked", "response_between_seed_and_sens",
          "new_inputs_epoch", "seed_mutated_inplace_idempotent", "complex_module", "iterative_solver", "repeat_after_reset_checked", "seed_single_column", "seed_single_entry"]
FAULT_KINDS = ["seed_by_reference_aliasing"]
COMPONENTS = {"real": ["every public non-I/O pyMOTO module constructible here: " + ", ".join(zoo.KINDS)],
              "stub": []}
ASSUMPTIONS = ["a configuration whose very first response()/sensitivity() raises is skipped and counted (that is C01's 'completes "
               "without raising', not a history question)",
               "linearity is checked over real scalars (a, b)",
               "in-place modification of the *seed* is judged only through its observable consequence (k calls add k*g)"]
NOT_EXERCISED = ["MathGeneral (sympy missing)", "AutoMod (jax missing)", "figure and writer modules (no sensitivities)"]

pym = None


def setup():
    global pym
    seams.install()
    pym = seams.import_pymoto()


def gen(rng, idx, tier):
    cfg = zoo.gen_cfg(rng)
    ops = []
    p_new = float(rng.choice([0.0, 0.1, 0.25]))
    for _ in range(int(rng.integers(3, 25 if tier == "thorough" else 12))):
        if rng.random() < p_new:
            ops.append(dict(e="newin", seed=int(rng.integers(1 << 30))))
        else:
            ops.append(dict(e="meas", w=str(rng.choice(["1", "2", "c"])), k=int(rng.choice([1, 1, 2, 3])),
                            mask=int(rng.integers(0, 8)) if rng.random() < 0.3 else 7,
                            pre_resp=bool(rng.random() < 0.15)))
    a, b = float(np.round(rng.uniform(-2, 2), 3)), float(np.round(rng.uniform(-2, 2), 3))
    if rng.random() < 0.3:
        # linearity holds at every scale: tiny / huge scalars expose absolute thresholds applied to the seed
        a *= 10.0 ** int(rng.integers(-12, 5))
        b *= 10.0 ** int(rng.integers(-12, 5))
    return dict(cfg=cfg, a=a, b=b,
                in0=int(rng.integers(1 << 30)), w1=int(rng.integers(1 << 30)), w2=int(rng.integers(1 << 30)), ops=ops)


def amax(x):
    return 0.0 if x is None or np.size(x) == 0 else float(np.max(np.abs(x)))


def close(x, y, tol, scale=None):
    """ |x - y| <= tol * scale, where `scale` is the magnitude of the terms the expected value is built from (so that the
    comparison is relative at every scale, yet robust against cancellation); default scale: max(1, |x|, |y|) """
    if x is None and y is None:
        return True, 0.0
    if x is None:
        x = np.zeros_like(y)
    if y is None:
        y = np.zeros_like(x)
    x, y = np.asarray(x), np.asarray(y)
    if x.shape != y.shape:
        return False, float("inf")
    sc = max(1.0, amax(x), amax(y)) if scale is None else max(scale, 1e-290)
    err = float(np.max(np.abs(x - y))) / sc if x.size else 0.0
    return err <= tol, err


def run(case):
    warnings.simplefilter("ignore")
    np.seterr(all="ignore")
    seams.reset_run([4, case["in0"]])
    cfg = case["cfg"]
    res = dict(trace=[f"M:{cfg['kind']}"], nontrivial=False, steps=0, probes={}, faults={}, skipped={}, violations=[],
               margins={})
    P = res["probes"]

    def probe(k):
        P[k] = P.get(k, 0) + 1

    def viol(clause, msg, at, feats=()):
        res["violations"].append(dict(cls=["C04", clause], msg=msg, at=at, features=[f"module={cfg['kind']}"] + list(feats)))

    def skip(k):
        res["skipped"][k] = res["skipped"].get(k, 0) + 1

    try:
        E = zoo.build(pym, cfg)
        E["set_inputs"](case["in0"])
        in_before = [zoo.snapshot(s.state) for s in E["ins"]]
        E["mod"].response()
    except Exception as ex:  # noqa  -- first use raises: not a history question
        skip(f"first_use_raises:{cfg['kind']}:{type(ex).__name__}")
        return res
    mod, ins, outs = E["mod"], E["ins"], E["outs"]
    if [zoo.snapshot(s.state) for s in ins] != in_before:
        viol("response-mutates-input", "the first response() changed the state of an input signal", 0)
        return res
    tol = E["lin_tol"]
    if E["iterative"]:
        probe("iterative_solver")
    if any(np.iscomplexobj(zoo.dense(s.state)) for s in ins + outs):
        probe("complex_module")
    a, b = case["a"], case["b"]
    table = {}
    first_sens_done = False
    nout = len(outs)

    def blocked(ws, seed):
        """ partial seeds *within* an output: only one column (matrix seeds) / one entry (vector seeds) is non-zero -- an
        objective that looks at one mode / one load case / one dof exercises the skip branches of the adjoint code """
        out = []
        for j, w in enumerate(ws):
            m = (seed + j) % 5
            if isinstance(w, np.ndarray) and w.ndim == 2 and w.shape[1] > 1 and m == 1:
                mask = np.zeros(w.shape[1])
                mask[(seed // 5) % w.shape[1]] = 1.0
                w = w * mask[None, :]
                probe("seed_single_column")
            elif isinstance(w, np.ndarray) and w.ndim == 1 and w.size > 1 and m == 2:
                mask = np.zeros(w.size)
                mask[(seed // 5) % w.size] = 1.0
                w = w * mask
                probe("seed_single_entry")
            out.append(w)
        return out

    def seeds_for(wkey):
        if wkey == "1":
            return blocked(E["make_seeds"](case["w1"]), case["w1"])
        if wkey == "2":
            return blocked(E["make_seeds"](case["w2"]), case["w2"])
        w1, w2 = blocked(E["make_seeds"](case["w1"]), case["w1"]), blocked(E["make_seeds"](case["w2"]), case["w2"])
        return [zoo.lincomb(a, x, b, y) for x, y in zip(w1, w2)]

    def states():
        return [zoo.snapshot(s.state) for s in ins + outs]

    def sens_in():
        return [None if s.sensitivity is None else np.array(zoo.dense(s.sensitivity)) for s in ins]

    for at, op in enumerate(case["ops"]):
        res["steps"] += 1
        if op["e"] == "newin":
            try:
                E["set_inputs"](op["seed"])
                in_before = [zoo.snapshot(s.state) for s in ins]
                mod.response()
                if [zoo.snapshot(s.state) for s in ins] != in_before:
                    viol("response-mutates-input", "response() changed the state of an input signal", at)
                    break
            except Exception as ex:  # noqa
                viol("exception", f"response() on new admissible inputs raised {type(ex).__name__}: {str(ex)[:160]} "
                     f"(the first response of this module succeeded)", at, feats=["op=response"])
                break
            table = {}
            probe("new_inputs_epoch")
            res["trace"].append("N")
            continue
        # ---- measurement episode
        k = op["k"]
        mask = op["mask"] & ((1 << nout) - 1)
        if mask == 0:
            mask = (1 << nout) - 1
        W = seeds_for(op["w"])
        Wkeep = [zoo.dense(zoo.copy_value(w)) for w in W]
        seeded = [bool((mask >> j) & 1) and W[j] is not None for j in range(nout)]
        if not any(seeded):
            res["trace"].append("E-noseed")
            continue
        if sum(seeded) < sum(1 for w in W if w is not None):
            probe("partial_seed")
            res["nontrivial"] = True
        st0 = states()
        try:
            for j in range(nout):
                outs[j].sensitivity = W[j] if seeded[j] else None      # by reference, as users and finite_difference do
            res["faults"]["seed_by_reference_aliasing"] = res["faults"].get("seed_by_reference_aliasing", 0) + 1
            if op["pre_resp"]:
                in_st = [zoo.snapshot(s.state) for s in ins]
                out_sens_ids = [id(s.sensitivity) for s in outs]
                mod.response()
                probe("response_between_seed_and_sens")
                if [zoo.snapshot(s.state) for s in ins] != in_st:
                    viol("response-mutates-input", "response() changed the state of an input signal", at)
                    break
                if [id(s.sensitivity) for s in outs] != out_sens_ids or any(s.sensitivity is not None for s in ins):
                    viol("response-touches-sensitivity", "response() changed a sensitivity", at)
                    break
                for j in range(nout):
                    ok, _ = close(zoo.dense(outs[j].sensitivity) if seeded[j] else None, Wkeep[j] if seeded[j] else None, 0.0)
                    if not ok:
                        viol("response-touches-sensitivity", "response() changed the value of a seeded output sensitivity", at)
                        break
                st0 = states()
            G = []
            for j in range(k):
                mod.sensitivity()
                G.append(sens_in())
        except Exception as ex:  # noqa
            if not first_sens_done:
                skip(f"first_sensitivity_raises:{cfg['kind']}:{type(ex).__name__}")
                res["trace"].append("E-skipfirst")
                break
            if cfg["kind"] == "EigenSolveSparse" and "singular" in str(ex).lower():
                # the eigenvector adjoint factorises A - lambda*B, singular by construction; whether SuperLU notices depends on the
                # rounding of lambda for these inputs, not on the history (observation recorded in DESIGN 10.4; C01 territory)
                skip("eigvec_adjoint_singular_shifted_system")
                break
            viol("exception", f"sensitivity() (k={k}, w={op['w']}, mask={mask}) raised {type(ex).__name__}: {str(ex)[:160]} "
                 f"after an earlier seeded sensitivity() of this module succeeded", at, feats=["op=sensitivity"])
            break
        if res["violations"]:
            break
        first_sens_done = True
        if any(hasattr(s.sensitivity, "n_dyads") for s in ins):
            probe("dyadcarrier_sensitivity")
        # k calls add k times
        if k >= 2:
            res["nontrivial"] = True
            if k == 3:
                probe("k3_repeats")
            for j in range(1, k):
                for ii in range(len(ins)):
                    g1 = G[0][ii]
                    ok, err = close(G[j][ii], None if g1 is None else (j + 1) * g1, tol, scale=(j + 1) * max(amax(g1), amax(G[j][ii]) / (j + 1)))
                    res["margins"]["additivity_err_over_tol"] = max(res["margins"].get("additivity_err_over_tol", 0.0), err / tol)
                    if not ok:
                        viol("additivity", f"{j + 1} calls of sensitivity() without reset do not give {j + 1} times the first "
                             f"contribution on input {ii} (rel err {err:.2e}); seeds were handed over by reference", at,
                             feats=[f"input={ii}"])
                        break
                if res["violations"]:
                    break
            if res["violations"]:
                break
        # seed object changed in place?  (probe only; an idempotent change is harmless)
        for j in range(nout):
            if seeded[j]:
                ok, _ = close(zoo.dense(W[j]), Wkeep[j], 0.0)
                if not ok:
                    probe("seed_mutated_inplace_idempotent")
        if states() != st0:
            viol("sensitivity-mutates-state", "sensitivity() changed the state of a signal", at)
            break
        try:
            mod.reset()
        except Exception as ex:  # noqa
            viol("exception", f"reset() raised {type(ex).__name__}: {str(ex)[:160]}", at, feats=["op=reset"])
            break
        if states() != st0:
            viol("reset-mutates-state", "reset() changed the state of a signal", at)
            break
        left = [s for s in ins + outs if s.sensitivity is not None and np.any(zoo.dense(s.sensitivity) != 0)]
        if left:
            viol("reset-leftover", f"reset() left a sensitivity on signal '{left[0].tag}'", at)
            break
        # table of single-call results per (seed, mask)
        key = (op["w"], mask)
        if key in table:
            probe("repeat_after_reset_checked")
            for ii in range(len(ins)):
                ok, err = close(G[0][ii], table[key][ii], tol * 10, scale=max(amax(G[0][ii]), amax(table[key][ii])))
                if not ok:
                    viol("repeatability", f"the same seed after reset() gives a different contribution on input {ii} "
                         f"(rel err {err:.2e})", at, feats=[f"input={ii}"])
                    break
        else:
            table[key] = G[0]
        if res["violations"]:
            break
        if all((w_, mask) in table for w_ in ("1", "2", "c")):
            probe("linearity_triple_checked")
            res["nontrivial"] = True
            g1, g2, gc = table[("1", mask)], table[("2", mask)], table[("c", mask)]
            for ii in range(len(ins)):
                exp = zoo.lincomb(a, g1[ii], b, g2[ii])
                ok, err = close(gc[ii], exp, tol, scale=max(abs(a) * amax(g1[ii]) + abs(b) * amax(g2[ii]), amax(gc[ii])))
                res["margins"]["linearity_err_over_tol"] = max(res["margins"].get("linearity_err_over_tol", 0.0), err / tol)
                if not ok:
                    viol("linearity", f"g({a}*w1+{b}*w2) != {a}*g(w1)+{b}*g(w2) on input {ii} (rel err {err:.2e}, mask={mask})",
                         at, feats=[f"input={ii}"])
                    break
            if res["violations"]:
                break
        res["trace"].append(f"E:{op['w']}:k{k}:{'p' if mask != (1 << nout) - 1 else 'f'}:{'r' if op['pre_resp'] else '-'}")
    return res
