"""C20 -- Result files decode back to the data that was written.

System under test: real pymoto.WriteToVTI -> DomainDefinition.write_to_vti and real pymoto.ScalarToFile, writing through
the SimFS seam (builtins.open / io.open below a per-process virtual root; file contents live in memory).

Fault-free configuration: after every response() and once more at the end of the history, every file is decoded by an
independent reader (xml.etree + base64 + struct) and compared with float32(input) / format(value, fmt).
Fault configuration (LEVEL fault_enumeration): the history is re-executed once per write-call index i of one chosen
response() call with ENOSPC at that write (plain and short write), and once per open() of that call with EIO.  The only
demand then: a call that returns normally has produced its complete, correct file; a call that raises is not inspected and
the file it touched is excluded from later whole-file checks.
"""
import atexit
import base64
import copy
import hashlib
import os
import re
import shutil
import struct
import warnings
import xml.etree.ElementTree as ET

import numpy as np

from sim import seams
from sim.core import sub_rng

PROP = "C20"
LEVEL = "fault_enumeration"
TIERS = {"quick": dict(runs=2000, chunk=20), "thorough": dict(budget_s=480, max_runs=400_000, chunk=40)}
RUN_WALL_CAP = 120
RULE = ("one case = one admissible 2-D/3-D domain (nel, nnodes not multiples of each other), 1-3 writers in one or two "
        "directories (WriteToVTI with overwrite flag, scale factor and 1-4 cell/point inputs: 1-3 components, 1-D vectors or "
        "block vectors in both layouts, float64/float32/int64, strided memory; ScalarToFile with format, separator or "
        ".csv and Python/NumPy scalars, 0-d, 1-element, vector and matrix inputs) and a generated history of 1-12 "
        "response() calls with fresh data; half of the cases additionally enumerate EVERY write-call index (ENOSPC, "
        "short write) and every open() (EIO) of one chosen call as fault point, re-executing the whole history each time; "
        "distinct = distinct abstract traces (writer kinds and flags, input classes, per-call outcome, per-fault-point "
        "position class and outcome); non-trivial = a writer was called at least twice (file k holds iteration k / rows "
        "are appended) or at least one injected fault fired")
PROBES = ["enospc_first_write", "enospc_middle_write", "enospc_last_write", "short_write_fired", "eio_open_fired",
          "overwrite_mode", "numbered_files", "block_vector", "block_vector_blocks_last", "single_block_2d_array",
          "padded_2d_vector", "three_component_vector", "cell_vector_components", "domain_3d", "several_writers_one_dir",
          "subdirectory", "strided_input", "int_input", "float32_input", "scale_factor", "one_element_array",
          "zero_d_array", "table_vector", "table_matrix", "csv_separator", "custom_separator", "python_int_value",
          "fault_in_first_call_of_writer", "call_after_failed_call_succeeds", "header_column_count_differs_from_rows",
          "stale_log_file_present", "columns_not_in_logical_order", "vti_extension_appended", "array_larger_than_64KiB"]
# observation-only counters that are reported when non-zero but are not workload targets: fault_call_returned_normally
# (an injected error was swallowed -- zero on a correct tree), header_is_raw_length / header_is_encoded_length
FAULT_KINDS = ["enospc", "short_write", "eio_open"]
COMPONENTS = {"real": ["pymoto.WriteToVTI", "pymoto.DomainDefinition.write_to_vti", "pymoto.ScalarToFile", "pathlib.Path.mkdir"],
              "stub": ["SimFS: in-memory file contents behind builtins.open/io.open (real directories, no real files)"]}
ASSUMPTIONS = ["domains have nnodes % nel != 0 and nel >= 3; a point-data input's total size is never divisible by nel and the "
               "block count of a blocks-first array is not a multiple of nel/nnodes (admissibility clause of the property)",
               "the UInt64 block header may hold either the raw byte count or the length of the encoded block (the "
               "property does not fix it); both are accepted and counted",
               "names of block-vector arrays: the tag followed by the block index (any punctuation / zero padding)",
               "after an injected fault the writer's iteration counter may or may not have advanced: both numberings are accepted",
               "table inputs are C-contiguous; the header line is only required to be one line naming every signal tag"]
NOT_EXERCISED = ["real disk (files live in memory)", "1-D domains (nel = 0)", "complex or non-finite data",
                 "faults while the output directory is created"]

pym = None

DOMS = []
for _nx in range(1, 6):
    for _ny in range(1, 6):
        for _nz in (0, 1, 2, 3):
            if _nz > 0 and (_nx > 3 or _ny > 3):
                continue
            _nel = _nx * _ny * max(_nz, 1)
            _nn = (_nx + 1) * (_ny + 1) * (_nz + 1)
            if _nel >= 3 and _nn % _nel != 0:
                DOMS.append((_nx, _ny, _nz))
DOMS2 = [d for d in DOMS if d[2] == 0]
DOMS3 = [d for d in DOMS if d[2] > 0]
# a few domains whose arrays exceed 64 KiB / 16384 values (encoders that work block-wise, length headers beyond 16 bit)
DOMS_BIG = [(131, 127, 0), (75, 77, 0), (22, 19, 17)]
FMTS = [".10e", "e", ".3e", "f", ".5f", ".3f", "g", ".5g", ".12g", "+.4e", ".0f", ".17g"]
SEPS = ["\t", ";", " ", " | ", ","]
TAGS = ["rho", "u", "lam", "T", "vel", "xPhys", "g", "f"]
TAB_KINDS = ["pyfloat", "npfloat", "pyint", "f32", "zero_d", "one_elem", "one_elem", "vec", "vec", "mat"]


def _cleanup(root, pid):
    if os.getpid() == pid:
        shutil.rmtree(root, ignore_errors=True)


def setup():
    global pym
    first = seams.FS is None
    seams.install(fs_root=f"/tmp/verif-simfs-{os.getpid()}")
    pym = seams.import_pymoto()
    if first and seams.FS is not None:
        atexit.register(_cleanup, seams.FS.root, os.getpid())
        try:
            from multiprocessing import util as mpu
            mpu.Finalize(None, _cleanup, args=(seams.FS.root, os.getpid()), exitpriority=0)
        except Exception:  # noqa
            pass


# ------------------------------------------------------------------------------------------------ admissibility
def dom_counts(d):
    nx, ny, nz = d
    return nx * ny * max(nz, 1), (nx + 1) * (ny + 1) * (nz + 1), (2 if nz == 0 else 3)


def dom_admissible(d):
    if min(d[0], d[1]) < 1 or d[2] < 0:
        return False
    nel, nn, _ = dom_counts(d)
    return nel >= 3 and nn % nel != 0


def input_admissible(d, inp):
    nel, nn, _ = dom_counts(d)
    N = nel if inp["on"] == "cell" else nn
    k, c = int(inp["blocks"]), int(inp["c"])
    if c < 1 or k < 0:
        return False
    size = max(k, 1) * c * N
    if inp["on"] == "point" and size % nel == 0:
        return False
    if k > 0 and inp["layout"] == "bf" and (k % nel == 0 or k % nn == 0):
        return False
    if k > 0 and inp["layout"] == "bl" and inp["on"] == "point" and (c * N) % nel == 0:
        return False
    return True


# ------------------------------------------------------------------------------------------------ generation
def _vti_input(rng, d, tag):
    for _ in range(30):
        inp = dict(tag=tag, on=str(rng.choice(["cell", "point", "point"])), c=int(rng.choice([1, 1, 2, 2, 3])),
                   blocks=0 if rng.random() < 0.6 else int(rng.choice([1, 2, 2, 3, 4, 11])),
                   layout=str(rng.choice(["bf", "bl"])), dtype=str(rng.choice(["f8", "f8", "f8", "f4", "i8"])),
                   mem="strided" if rng.random() < 0.2 else "c")
        if input_admissible(d, inp):
            return inp
    return dict(tag=tag, on="cell", c=1, blocks=0, layout="bf", dtype="f8", mem="c")


def gen(rng, idx, tier):
    d = DOMS2[int(rng.integers(len(DOMS2)))] if rng.random() < 0.65 else DOMS3[int(rng.integers(len(DOMS3)))]
    big = rng.random() < 0.04
    if big:
        d = DOMS_BIG[int(rng.integers(len(DOMS_BIG)))]
    unit = [float(rng.choice([1.0, 0.5, 2.0, 0.1, 1.25])) for _ in range(3)]
    case = dict(dom=dict(nel=list(d), unit=unit), writers=[], ops=[], fault=None)
    nw = int(rng.choice([1, 1, 2, 2, 3]))
    for w in range(nw):
        sub = "" if rng.random() < 0.7 else "out"
        tags = [str(t) for t in rng.permutation(TAGS)]
        if rng.random() < 0.6:
            ninp = int(rng.integers(1, 5))
            case["writers"].append(dict(kind="vti", name=f"w{w}", dir=sub, overwrite=bool(rng.random() < 0.4),
                                        scale=float(rng.choice([1.0, 1.0, 2.0, 0.5, 1e-3, 3.0])),
                                        inputs=[_vti_input(rng, d, tags[i]) for i in range(ninp)],
                                        vext=str(rng.choice([".vti", ".vti", ".vti", ".VTI", "", ".out", ".r1.vti"]))))
        else:
            ninp = int(rng.integers(1, 5))
            inputs = []
            for i in range(ninp):
                kind = str(rng.choice(TAB_KINDS))
                inputs.append(dict(tag=tags[i], kind=kind, len=int(rng.integers(2, 7)), cols=int(rng.integers(2, 4))))
            case["writers"].append(dict(kind="tab", name=f"w{w}", dir=sub, ext=str(rng.choice([".txt", ".txt", ".csv", ".dat"])),
                                        fmt=str(rng.choice(FMTS)), sep=str(rng.choice(SEPS)), inputs=inputs,
                                        stale=bool(rng.random() < 0.25)))
    nops = int(rng.integers(1, 13))
    if big:
        nops = min(nops, 3)
    for _ in range(nops):
        case["ops"].append(dict(w=int(rng.integers(0, 64)), seed=int(rng.integers(1 << 30))))
    if rng.random() < 0.5 and not big:
        case["fault"] = dict(at=int(rng.integers(0, 64)), points="all")
    return case


def simplify(case):
    if case.get("fault") is not None:
        c = copy.deepcopy(case)
        c["fault"] = None
        yield c
        if case["fault"]["points"] == "all":
            for i in range(0, 80):
                for kind in ("enospc", "short", "eio"):
                    c = copy.deepcopy(case)
                    c["fault"]["points"] = [[kind, i]]
                    yield c
    if len(case["writers"]) > 1:
        for k in range(len(case["writers"])):
            c = copy.deepcopy(case)
            del c["writers"][k]
            yield c
    for k, w in enumerate(case["writers"]):
        if len(w["inputs"]) > 1:
            for j in range(len(w["inputs"])):
                c = copy.deepcopy(case)
                del c["writers"][k]["inputs"][j]
                yield c
        if w.get("dir"):
            c = copy.deepcopy(case)
            c["writers"][k]["dir"] = ""
            yield c
        if w["kind"] == "vti":
            if w["scale"] != 1.0:
                c = copy.deepcopy(case)
                c["writers"][k]["scale"] = 1.0
                yield c
            for j, inp in enumerate(w["inputs"]):
                for key, val in (("blocks", 0), ("c", 1), ("dtype", "f8"), ("mem", "c"), ("on", "cell")):
                    if inp[key] != val:
                        c = copy.deepcopy(case)
                        c["writers"][k]["inputs"][j][key] = val
                        if input_admissible(tuple(case["dom"]["nel"]), c["writers"][k]["inputs"][j]):
                            yield c
        else:
            for key, val in (("fmt", ".10e"), ("sep", "\t"), ("ext", ".txt")):
                if w[key] != val:
                    c = copy.deepcopy(case)
                    c["writers"][k][key] = val
                    yield c
            for j, inp in enumerate(w["inputs"]):
                if inp["kind"] != "pyfloat":
                    c = copy.deepcopy(case)
                    c["writers"][k]["inputs"][j]["kind"] = "pyfloat"
                    yield c
    if case["dom"]["unit"] != [1.0, 1.0, 1.0]:
        c = copy.deepcopy(case)
        c["dom"]["unit"] = [1.0, 1.0, 1.0]
        yield c
    def size(dd):
        return (dd[2] > 0, dd[0] * dd[1] * max(dd[2], 1), dd[0])

    for d in ((1, 3, 0), (2, 2, 0), (2, 2, 1)):
        if size(d) < size(case["dom"]["nel"]) and (d[2] > 0) == (case["dom"]["nel"][2] > 0):
            c = copy.deepcopy(case)
            c["dom"]["nel"] = list(d)
            yield c


# ------------------------------------------------------------------------------------------------ payloads
def vti_array(inp, d, seed, j):
    nel, nn, _ = dom_counts(d)
    N = nel if inp["on"] == "cell" else nn
    k, c = int(inp["blocks"]), int(inp["c"])
    shape = (c * N,) if k == 0 else ((k, c * N) if inp["layout"] == "bf" else (c * N, k))
    rng = sub_rng(0xC20, seed, j)
    if inp["dtype"] == "i8":
        a = rng.integers(-1000, 1000, size=shape)
    else:
        a = rng.normal(size=shape) * 10.0 ** int(rng.integers(-3, 4))
        if inp["dtype"] == "f4":
            a = a.astype(np.float32)
    if inp["mem"] == "strided":
        if a.ndim == 1:
            big = np.zeros(2 * a.size, dtype=a.dtype)
            big[::2] = a
            a = big[::2]
        else:
            a = np.asfortranarray(a)
    return a


def vti_expected(inp, d, arr):
    """ -> list of (section, block index or None, number of components, float32 payload) """
    nel, nn, dim = dom_counts(d)
    point = inp["on"] == "point"
    N = nn if point else nel
    k, c = int(inp["blocks"]), int(inp["c"])
    if k == 0 or k == 1:
        blocks = [np.asarray(arr).reshape(-1)]
    elif inp["layout"] == "bf":
        blocks = [np.asarray(arr)[i, :] for i in range(k)]
    else:
        blocks = [np.asarray(arr)[:, i] for i in range(k)]
    out = []
    for i, b in enumerate(blocks):
        b32 = np.array(b, dtype=np.float32)
        ncomp = c
        if point and c == 2 and dim == 2:
            p = np.zeros(3 * N, dtype=np.float32)
            p[0::3], p[1::3] = b32[0::2], b32[1::2]
            b32, ncomp = p, 3
        out.append(("PointData" if point else "CellData", i if k > 1 else None, ncomp, b32))
    return out


def tab_value(inp, seed, j):
    rng = sub_rng(0x7AB, seed, j)
    mag = 10.0 ** int(rng.integers(-8, 9))
    kind = inp["kind"]
    if kind == "pyfloat":
        return float(rng.normal() * mag)
    if kind == "npfloat":
        return np.float64(rng.normal() * mag)
    if kind == "f32":
        return np.float32(rng.normal() * min(mag, 1e6))
    if kind == "pyint":
        return int(rng.integers(-10 ** 6, 10 ** 6))
    if kind == "zero_d":
        return np.array(rng.normal() * mag)
    if kind == "one_elem":
        return np.array([rng.normal() * mag])
    lay = (seed + 3 * j) % 4          # memory layout of array inputs: logical (C) order is what the header names refer to
    if kind == "vec":
        v = rng.normal(size=int(inp["len"])) * mag
        if lay == 1:
            return v[::-1]                                 # reversed view (negative stride)
        if lay == 2:
            return np.repeat(v, 2)[::2]                    # strided view
        return v
    if kind == "mat":
        c = int(inp["cols"])
        m = rng.normal(size=(2, c)) * mag
        if lay == 1:
            return np.ascontiguousarray(m.T).T             # transposed view of a C-ordered array
        if lay == 2:
            return np.asfortranarray(m)                    # Fortran-ordered
        if lay == 3:
            return m[:, ::-1]                              # reversed columns
        return m
    raise ValueError(kind)


def tab_names(tags, values):
    """ column names in logical (C) order, parallel to tab_strings: 'tag' for scalars / one-element arrays, 'tag[i, j]' else """
    out = []
    for t, v in zip(tags, values):
        a = np.asarray(v)
        if a.size > 1:
            out.extend(f"{t}{list(idx)}" for idx in np.ndindex(*a.shape))
        else:
            out.append(t)
    return out


def header_order(head, names):
    """ permutation that sorts the logical entries into the column order announced by the header line, or None if a
    name cannot be located (then the logical order is assumed).  The property binds a column to a value through the
    header; the order in which a multi-dimensional input is flattened is not promised. """
    pos = []
    for nm in names:
        m = re.search(r"(?<![A-Za-z0-9_\]])" + re.escape(nm) + r"(?![A-Za-z0-9_\[])", head)
        if m is None:
            return None
        pos.append(m.start())
    if len(set(pos)) != len(pos):
        return None
    return list(np.argsort(pos, kind="stable"))


def tab_strings(values, fmt):
    out = []
    for v in values:
        flat = np.asarray(v).reshape(-1) if isinstance(v, np.ndarray) else [v]
        for e in flat:
            e = e.item() if hasattr(e, "item") else e
            out.append(format(e, fmt))
    return out


# ------------------------------------------------------------------------------------------------ independent decoders
_NAME = re.compile(r"([A-Za-z]+)\W*(\d*)\W*")     # tag, optional block index (any punctuation / zero padding)


class Bad(Exception):
    def __init__(self, clause, msg):
        super().__init__(msg)
        self.clause, self.msg = clause, msg


def decode_vti(raw):
    try:
        root = ET.fromstring(raw)
    except ET.ParseError as e:
        raise Bad("vti-parse", f"not well-formed XML: {e}")
    if root.tag != "VTKFile" or root.get("type") != "ImageData":
        raise Bad("vti-parse", f"root element {root.tag!r} type={root.get('type')!r}, expected VTKFile/ImageData")
    bo = {"LittleEndian": "<", "BigEndian": ">"}.get(root.get("byte_order"))
    if bo is None or root.get("header_type") != "UInt64":
        raise Bad("vti-parse", f"byte_order={root.get('byte_order')!r} header_type={root.get('header_type')!r}")
    img = root.find("ImageData")
    if img is None:
        raise Bad("vti-parse", "no ImageData element")
    piece = img.find("Piece")
    if piece is None:
        raise Bad("vti-parse", "no Piece element")
    out = dict(extent=img.get("WholeExtent"), origin=img.get("Origin"), spacing=img.get("Spacing"),
               piece_extent=piece.get("Extent"), arrays=[])
    for sec in piece:
        if sec.tag not in ("PointData", "CellData"):
            raise Bad("vti-parse", f"unexpected element {sec.tag!r} in Piece")
        for da in sec:
            if da.tag != "DataArray" or da.get("type") != "Float32" or da.get("format") != "binary":
                raise Bad("vti-parse", f"array element {da.tag!r} type={da.get('type')!r} format={da.get('format')!r}")
            txt = "".join((da.text or "").split())
            if len(txt) < 12:
                raise Bad("vti-payload", f"array {da.get('Name')!r}: payload shorter than the UInt64 header")
            try:
                head = struct.unpack(bo + "Q", base64.b64decode(txt[:12], validate=True))[0]
                body = base64.b64decode(txt[12:], validate=True)
            except Exception as e:  # noqa
                raise Bad("vti-payload", f"array {da.get('Name')!r}: base64 block does not decode ({e})")
            if len(body) % 4:
                raise Bad("vti-payload", f"array {da.get('Name')!r}: {len(body)} payload bytes is not a whole number of Float32")
            try:
                ncomp = int(da.get("NumberOfComponents"))
            except Exception:  # noqa
                raise Bad("vti-components", f"array {da.get('Name')!r}: NumberOfComponents={da.get('NumberOfComponents')!r}")
            out["arrays"].append(dict(section=sec.tag, name=da.get("Name"), ncomp=ncomp, head=head, enc_len=len(txt) - 12,
                                      values=np.frombuffer(body, dtype=np.dtype(bo + "f4"))))
    return out


def check_vti(raw, d, unit, scale, inputs, arrays, probe):
    """ None if the file is a complete and correct image of the inputs, else (clause, msg, features) """
    nel, nn, dim = dom_counts(d)
    try:
        f = decode_vti(raw)
    except Bad as b:
        return b.clause, b.msg, []
    want_ext = [0, d[0], 0, d[1], 0, d[2]]
    for key in ("extent", "piece_extent"):
        try:
            got = [int(t) for t in f[key].split()]
        except Exception:  # noqa
            got = None
        if got != want_ext:
            return "vti-geometry", f"{key}={f[key]!r}, domain needs {want_ext}", ["extent"]
    try:
        sp = [float(t) for t in f["spacing"].split()]
        og = [float(t) for t in f["origin"].split()]
    except Exception:  # noqa
        return "vti-geometry", f"Spacing={f['spacing']!r} Origin={f['origin']!r} do not parse", ["spacing"]
    if len(sp) != 3 or any(abs(sp[i] - unit[i] * scale) > 1e-12 * abs(unit[i] * scale) for i in range(dim)):
        return "vti-geometry", f"Spacing={sp}, domain needs {[u * scale for u in unit[:dim]]} (element size x scale {scale})", ["spacing"]
    if len(og) != 3 or any(o != 0.0 for o in og):
        return "vti-geometry", f"Origin={og}, domain origin is 0", ["origin"]
    byname, bykey = {}, {}
    for a in f["arrays"]:
        if a["name"] in byname:
            return "vti-arrays", f"array name {a['name']!r} occurs twice", []
        byname[a["name"]] = a
        m = _NAME.fullmatch(a["name"] or "")
        if m:
            bykey.setdefault((m.group(1), int(m.group(2)) if m.group(2) else None), []).append(a["name"])
    used = set()
    for inp, arr in zip(inputs, arrays):
        feats = [inp["on"], f"c={inp['c']}", "block" if inp["blocks"] else "vector", f"dim={dim}"]
        if inp["blocks"] == 1:
            feats.append("single_block_2d_array")
        for section, bi, ncomp, want in vti_expected(inp, d, arr):
            if bi is None:
                cands = bykey.get((inp["tag"], None), []) + bykey.get((inp["tag"], 0), [])
            else:
                cands = bykey.get((inp["tag"], bi), [])
            cands = [n for n in cands if n not in used]
            if len(cands) != 1:
                return ("vti-arrays", f"input {inp['tag']!r} block {bi}: {len(cands)} arrays with a matching name among "
                        f"{sorted(byname)}", feats)
            a = byname[cands[0]]
            used.add(cands[0])
            if a["section"] != section:
                return ("vti-section", f"array {a['name']!r} ({inp['on']}-sized, {arr.size} values, nel={nel}, nnodes={nn}) "
                        f"is stored as {a['section']}, expected {section}", feats)
            if a["ncomp"] != ncomp:
                return ("vti-components", f"array {a['name']!r}: NumberOfComponents={a['ncomp']}, expected {ncomp}", feats)
            if a["head"] == 4 * a["values"].size:
                probe("header_is_raw_length")
            elif a["head"] == a["enc_len"]:
                probe("header_is_encoded_length")
            else:
                return ("vti-payload", f"array {a['name']!r}: UInt64 header {a['head']} is neither the raw byte count "
                        f"{4 * a['values'].size} nor the encoded length {a['enc_len']}", feats + ["header"])
            if a["values"].size != want.size:
                return ("vti-payload", f"array {a['name']!r}: {a['values'].size} values decoded, expected {want.size}", feats)
            if not np.array_equal(a["values"], want):
                i = int(np.nonzero(a["values"] != want)[0][0])
                return ("vti-payload", f"array {a['name']!r}: decoded value [{i}]={float(a['values'][i])!r} != float32(input)="
                        f"{float(want[i])!r}", feats)
    extra = sorted(set(byname) - used)
    if extra:
        return "vti-arrays", f"arrays {extra} in the file do not correspond to any input", []
    return None


def check_table(raw, w, rows, probe, weak_iters=None, names=None):
    """ rows: list of lists of expected value strings (one per successful call).  weak_iters: after a fault only the last
    line is judged, with any of the given iteration numbers """
    sep = "," if w["ext"] == ".csv" else w["sep"]
    try:
        txt = raw.decode("utf-8")
    except Exception as e:  # noqa
        return "table-parse", f"log file is not UTF-8 text ({e})", []
    if weak_iters is not None:
        last = rows[-1]
        lines_ = txt.split("\n")
        order_ = header_order(lines_[0], names) if names else None
        if order_ is not None and len(order_) == len(last):
            last = [last[k] for k in order_]
        ok = any(txt.endswith(sep.join([str(it)] + last) + "\n") for it in weak_iters)
        if not ok:
            return ("table-rows", f"after a normally returning call the file does not end with that call's row "
                    f"{sep.join(['<it>'] + rows[-1])!r} (iteration in {sorted(weak_iters)}); tail={txt[-120:]!r}", [])
        return None
    if not txt.endswith("\n"):
        return "table-rows", f"file does not end with a newline; tail={txt[-80:]!r}", []
    lines = txt[:-1].split("\n")
    if len(lines) != 1 + len(rows):
        return ("table-rows", f"{len(lines)} lines (1 header + {len(lines) - 1} rows) after {len(rows)} calls; "
                f"first lines={lines[:3]!r}", ["row_count"])
    head = lines[0]
    for inp in w["inputs"]:
        if inp["tag"] not in head:
            return "table-header", f"header {head!r} does not name signal {inp['tag']!r}", []
    order = header_order(head, names) if names else None
    if order is not None and order != list(range(len(order))):
        probe("columns_not_in_logical_order")
    for it, (line, want) in enumerate(zip(lines[1:], rows)):
        if order is not None and len(order) == len(want):
            want = [want[k] for k in order]
        cols = line.split(sep)
        if len(cols) != 1 + len(want):
            return ("table-rows", f"row {it}: {len(cols)} columns {cols!r}, expected iteration + {len(want)} values", ["column_count"])
        try:
            ok = int(cols[0]) == it
        except ValueError:
            ok = False
        if not ok:
            return "table-rows", f"row {it}: first column {cols[0]!r} does not parse back to iteration {it}", ["iteration"]
        for j, (got, exp) in enumerate(zip(cols[1:], want)):
            try:
                same = got == exp and float(got) == float(exp)
            except ValueError:
                same = False
            if not same:
                return ("table-value", f"row {it} column {j + 1}: {got!r} != format(value, {w['fmt']!r}) = {exp!r}", ["value"])
        if it == 0 and len(head.split(sep)) != len(cols):
            probe("header_column_count_differs_from_rows")
    return None


# ------------------------------------------------------------------------------------------------ one execution
def execute(case, res, fault=None, sigcache=None):
    """ Runs the whole history once.  fault = (kind, i, at) arms the i-th write (enospc|short) or open (eio) of op `at`.
    -> (violation dict or None, info) """
    P, S = res["probes"], res["skipped"]

    def probe(k):
        P[k] = P.get(k, 0) + 1

    def skip(k):
        S[k] = S.get(k, 0) + 1

    info = dict(writes={}, opens={}, fired=0, tokens=[], outcome=None)
    sigcache = {} if sigcache is None else sigcache

    def signal(wi, tag):
        # Signals are passive holders (the writers only read them): one object per (writer, tag) serves all re-executions
        if (wi, tag) not in sigcache:
            sigcache[(wi, tag)] = pym.Signal(tag)
        return sigcache[(wi, tag)]
    seams.reset_run([0xC20])
    FS = seams.FS
    root = FS.root
    d = tuple(int(v) for v in case["dom"]["nel"])
    unit = [float(u) for u in case["dom"]["unit"]]
    tagf = ["fault_run"] if fault is not None else []

    def V(clause, msg, at, feats=()):
        return dict(cls=["C20", clause], msg=msg, at=at, features=list(feats) + tagf)

    if not dom_admissible(d):
        skip("inadmissible_domain")
        return None, info
    dim = dom_counts(d)[2]
    if dim == 3:
        probe("domain_3d")
    if dom_counts(d)[1] * 4 > 65536:
        probe("array_larger_than_64KiB")

    # ---- build the writers
    writers = []
    try:
        dom = pym.DomainDefinition(d[0], d[1], d[2], unitx=unit[0], unity=unit[1], unitz=unit[2])
        for wi, w in enumerate(case["writers"]):
            base = os.path.join(root, w["dir"]) if w.get("dir") else root
            if w["kind"] == "vti":
                inputs = []
                for inp in w["inputs"]:
                    if input_admissible(d, inp) and inp["tag"] not in [q["tag"] for q in inputs]:
                        inputs.append(inp)
                    else:
                        skip("inadmissible_input_dropped")
                if not inputs:
                    writers.append(None)
                    continue
                sigs = [signal(wi, inp["tag"]) for inp in inputs]
                saveto = os.path.join(base, w["name"] + w.get("vext", ".vti"))
                mod = pym.WriteToVTI(sigs, domain=dom, saveto=saveto, overwrite=bool(w["overwrite"]), scale=float(w["scale"]))
                writers.append(dict(spec=w, kind="vti", mod=mod, sigs=sigs, inputs=inputs, saveto=saveto, its={0}, files={},
                                    excluded=set(), calls=0, ok_calls=0, failed_before=False))
            else:
                inputs = []
                for inp in w["inputs"]:
                    if inp["tag"] not in [q["tag"] for q in inputs]:
                        inputs.append(inp)
                if not inputs:
                    writers.append(None)
                    continue
                sigs = [signal(wi, inp["tag"]) for inp in inputs]
                saveto = os.path.join(base, w["name"] + w["ext"])
                if w.get("stale"):
                    # a log of an earlier run is still there (script re-run with the same path): it must not survive
                    FS.files[os.path.abspath(saveto)] = b"Iteration\tzz\n0\t1.0\n1\t2.0\n"
                    probe("stale_log_file_present")
                mod = pym.ScalarToFile(sigs, saveto=saveto, fmt=w["fmt"], separator=w["sep"])
                writers.append(dict(spec=w, kind="tab", mod=mod, sigs=sigs, inputs=inputs, saveto=saveto, its={0}, rows=[],
                                    tainted=False, calls=0, ok_calls=0, failed_before=False))
    except Exception as ex:  # noqa
        return V("exception-construct", f"constructing the writers raised {type(ex).__name__}: {str(ex)[:200]}", 0), info
    live = [w for w in writers if w is not None]
    if not live:
        skip("no_writer_left")
        return None, info
    dirs = {}
    for w in live:
        dirs.setdefault(os.path.dirname(w["saveto"]), []).append(w)
        if w["spec"].get("dir"):
            probe("subdirectory")
    if any(len(v) > 1 for v in dirs.values()):
        probe("several_writers_one_dir")

    def vti_path(w, it):
        # one file per iteration: <stem>.<NNNN><ext>; a name that does not end in .vti (any case) gets '.vti' appended (documented by
        # DomainDefinition.write_to_vti: "filename: the file location", extension added when missing)
        if w["spec"]["overwrite"]:
            nm = w["saveto"]
        else:
            stem, ext = os.path.splitext(w["saveto"])
            nm = stem + ".%04d" % it + ext
        if ".vti" not in os.path.splitext(nm)[-1].lower():
            nm += ".vti"
            probe("vti_extension_appended")
        return nm

    # ---- the history
    for at, op in enumerate(case["ops"]):
        res["steps"] += 1
        w = live[int(op["w"]) % len(live)]
        spec = w["spec"]
        armed = fault is not None and fault[2] == at
        # new input data
        if w["kind"] == "vti":
            if ("data", at) not in sigcache:      # payloads are a pure function of the case: built once per run
                sigcache[("data", at)] = [vti_array(inp, d, op["seed"], j) for j, inp in enumerate(w["inputs"])]
            arrays = sigcache[("data", at)]
            for s, a in zip(w["sigs"], arrays):
                s.state = a
            tok = "vti:" + ("ow" if spec["overwrite"] else "num") + ":" + ",".join(
                f"{i['on'][0]}{i['c']}{'b' + i['layout'] if i['blocks'] else ''}{'1' if i['blocks'] == 1 else ''}" for i in w["inputs"])
            if fault is None:
                probe("overwrite_mode" if spec["overwrite"] else "numbered_files")
                if spec["scale"] != 1.0:
                    probe("scale_factor")
                for inp in w["inputs"]:
                    if inp["blocks"] > 1:
                        probe("block_vector")
                        if inp["layout"] == "bl":
                            probe("block_vector_blocks_last")
                    if inp["blocks"] == 1:
                        probe("single_block_2d_array")
                    if inp["on"] == "point" and inp["c"] == 2 and dim == 2:
                        probe("padded_2d_vector")
                    if inp["on"] == "point" and inp["c"] == 3:
                        probe("three_component_vector")
                    if inp["on"] == "cell" and inp["c"] > 1:
                        probe("cell_vector_components")
                    if inp["mem"] == "strided":
                        probe("strided_input")
                    if inp["dtype"] == "i8":
                        probe("int_input")
                    if inp["dtype"] == "f4":
                        probe("float32_input")
        else:
            values = [tab_value(inp, op["seed"], j) for j, inp in enumerate(w["inputs"])]
            w["names"] = tab_names([inp["tag"] for inp in w["inputs"]], values)
            for s, v in zip(w["sigs"], values):
                s.state = v
            tok = "tab:" + ("csv" if spec["ext"] == ".csv" else "sep") + ":" + ",".join(i["kind"] for i in w["inputs"])
            if fault is None:
                probe("csv_separator" if spec["ext"] == ".csv" else "custom_separator")
                for inp in w["inputs"]:
                    k = {"one_elem": "one_element_array", "zero_d": "zero_d_array", "vec": "table_vector", "mat": "table_matrix",
                         "pyint": "python_int_value"}.get(inp["kind"])
                    if k:
                        probe(k)
        # the call
        w0, o0, f0 = FS.write_calls, FS.open_calls, FS.faults_fired
        if armed:
            FS.write_calls, FS.open_calls = 0, 0
            w0 = o0 = 0
            if fault[0] == "eio":
                FS.fail_at_open = int(fault[1])
            else:
                FS.fail_at_write, FS.fail_kind = int(fault[1]), ("short" if fault[0] == "short" else "enospc")
        raised = None
        try:
            w["mod"].response()
        except Exception as ex:  # noqa
            raised = ex
        info["writes"][at], info["opens"][at] = FS.write_calls - w0, FS.open_calls - o0
        fired = FS.faults_fired - f0
        FS.fail_at_write, FS.fail_at_open, FS.fail_kind = None, None, "enospc"
        w["calls"] += 1
        if armed:
            info["fired"] += fired
            if fired and w["calls"] == 1:
                probe("fault_in_first_call_of_writer")
        if raised is not None:
            if fault is not None and at >= fault[2] and not fired:
                skip("raise_after_fault_not_inspected")
            if fired or (fault is not None and at >= fault[2]):
                # not inspected; the touched file is excluded, the iteration counter may or may not have advanced
                info["outcome"] = "raised"
                w["its"] = set(w["its"]) | {k + 1 for k in w["its"]}
                w["failed_before"] = True
                if w["kind"] == "vti":
                    w["excluded"] |= {vti_path(w, k) for k in w["its"]}
                else:
                    w["tainted"] = True
                info["tokens"].append(tok + ":raised")
                continue
            feats = [w["kind"]]
            if w["kind"] == "tab" and any(i["kind"] == "one_elem" for i in w["inputs"]):
                feats.append("one_element_array")
            if w["kind"] == "vti" and any(i["blocks"] == 1 for i in w["inputs"]):
                feats.append("single_block_2d_array")
                if any(i["blocks"] == 1 and i["on"] == "point" and i["c"] == 2 and dim == 2 for i in w["inputs"]):
                    feats.append("single_block_padded_2d_vector")
            feats.append("exc=" + type(raised).__name__)
            return V("exception-" + type(w["mod"]).__name__, f"op {at}: {type(w['mod']).__name__}.response() (call #{w['calls']} of this writer, "
                     f"inputs {tok}) raised {type(raised).__name__}: {str(raised)[:160]}", at, feats), info
        # returned normally: the file must be there, complete and correct
        if armed and fired:
            info["outcome"] = "returned"
            probe("fault_call_returned_normally")
        if w["failed_before"]:
            probe("call_after_failed_call_succeeds")
        bad = None
        replayed = fault is not None and at < fault[2]
        if replayed and w["kind"] == "vti":
            p = vti_path(w, min(w["its"]))
            w["files"][p] = [a.copy() for a in arrays]
            w["its"] = {min(w["its"]) + 1}
        elif replayed:
            w["rows"].append(tab_strings(values, spec["fmt"]))
            w["its"] = {len(w["rows"])}
        elif w["kind"] == "vti":
            hit = None
            for it in sorted(w["its"]):
                path = vti_path(w, it)
                raw = seams.read_file(path)
                if raw is None:
                    b = ("vti-file-missing", f"no file {os.path.relpath(path, root)!r} after iteration {it} returned normally", [])
                else:
                    b = check_vti(raw, d, unit, float(spec["scale"]), w["inputs"], arrays, probe)
                if b is None:
                    hit = it
                    break
                bad = bad or b
            if hit is not None:
                bad = None
                p = vti_path(w, hit)
                w["files"][p] = [a.copy() for a in arrays]
                w["excluded"].discard(p)
                w["its"] = {hit + 1}
        else:
            w["rows"].append(tab_strings(values, spec["fmt"]))
            raw = seams.read_file(w["saveto"])
            if raw is None:
                bad = ("table-file-missing", f"no file {os.path.relpath(w['saveto'], root)!r} after a normally returning call", [])
            elif w["tainted"]:
                bad = check_table(raw, spec, w["rows"], probe, weak_iters=set(w["its"]), names=w.get("names"))
                w["its"] = {k + 1 for k in w["its"]}
            else:
                bad = check_table(raw, spec, w["rows"], probe, names=w.get("names"))
                w["its"] = {len(w["rows"])}
        if bad is not None:
            clause, msg, feats = bad
            if armed and fired:
                feats = list(feats) + [clause]
                clause = "silent-success"
                msg = f"injected {fault[0]} at {'open' if fault[0] == 'eio' else 'write'} #{fault[1]} was swallowed: " + msg
            return V(clause, f"op {at} ({tok}, call #{w['calls']} of writer {spec['name']}): {msg}", at, feats), info
        w["ok_calls"] += 1
        if w["ok_calls"] >= 2:
            res["nontrivial"] = True
        info["tokens"].append(tok + ":ok")

    # ---- end of history: every file written by a normally returning call still holds its iteration
    for w in live:
        spec = w["spec"]
        if w["kind"] == "vti":
            for p in sorted(w["files"]):
                if p in w["excluded"]:
                    skip("file_excluded_after_fault")
                    continue
                raw = seams.read_file(p)
                b = ("vti-file-missing", "file disappeared", []) if raw is None else \
                    check_vti(raw, d, unit, float(spec["scale"]), w["inputs"], w["files"][p], probe)
                if b is not None:
                    return V(b[0], f"end of history: {os.path.relpath(p, root)!r} no longer holds its iteration: {b[1]}",
                             len(case["ops"]), list(b[2]) + ["end_of_history"]), info
        elif w["rows"]:
            if w["tainted"]:
                skip("file_excluded_after_fault")
                continue
            raw = seams.read_file(w["saveto"])
            b = ("table-file-missing", "file disappeared", []) if raw is None else check_table(raw, spec, w["rows"], probe, names=w.get("names"))
            if b is not None:
                return V(b[0], f"end of history: {os.path.relpath(w['saveto'], root)!r}: {b[1]}", len(case["ops"]),
                         list(b[2]) + ["end_of_history"]), info
    h = hashlib.sha256()
    for p in sorted(FS.files):
        h.update(os.path.relpath(p, root).encode() + b"\0" + FS.files[p] + b"\0")
    info["digest"] = h.hexdigest()[:16]
    return None, info


# ------------------------------------------------------------------------------------------------ run
def run(case):
    warnings.simplefilter("ignore")
    res = dict(trace=[], nontrivial=False, steps=0, probes={}, faults={}, skipped={}, violations=[], margins={})
    P, F, S = res["probes"], res["faults"], res["skipped"]
    if not case["ops"] or not case["writers"]:
        res["detail"] = ""
        return res
    sigcache = {}
    v, info = execute(case, res, None, sigcache)
    res["trace"] = list(info["tokens"])
    res["detail"] = info.get("digest", "")
    if v is not None:
        res["violations"].append(v)
        res["trace"].append("VIOL:" + v["cls"][1])
        return res
    fl = case.get("fault")
    if fl is None or not info["writes"]:
        return res
    at = int(fl["at"]) % len(case["ops"])
    nW, nO = info["writes"].get(at, 0), info["opens"].get(at, 0)
    if fl["points"] == "all":
        points = [("enospc", i) for i in range(nW)] + [("short", i) for i in range(nW)] + [("eio", i) for i in range(nO)]
    else:
        points = [(str(k), int(i)) for k, i in fl["points"]]
    digs = []
    for kind, i in points:
        limit = nO if kind == "eio" else nW
        if i >= limit:
            S["fault_point_not_reached"] = S.get("fault_point_not_reached", 0) + 1
            continue
        v, finfo = execute(case, res, (kind, i, at), sigcache)
        pos = "first" if i == 0 else ("last" if i == limit - 1 else "middle")
        if finfo["fired"]:
            key = {"enospc": "enospc", "short": "short_write", "eio": "eio_open"}[kind]
            F[key] = F.get(key, 0) + finfo["fired"]
            res["nontrivial"] = True
            if kind == "enospc":
                P[f"enospc_{pos}_write"] = P.get(f"enospc_{pos}_write", 0) + 1
            elif kind == "short":
                P["short_write_fired"] = P.get("short_write_fired", 0) + 1
            else:
                P["eio_open_fired"] = P.get("eio_open_fired", 0) + 1
        else:
            S["armed_fault_did_not_fire"] = S.get("armed_fault_did_not_fire", 0) + 1
        res["trace"].append(f"F:{kind}:{pos}:{finfo['outcome']}:{'VIOL' if v else 'ok'}")
        digs.append(finfo.get("digest", "-"))
        if v is not None:
            v["features"] = list(v["features"]) + [f"fault_kind={kind}", f"fault_pos={pos}"]
            v["msg"] = f"[fault {kind} at {'open' if kind == 'eio' else 'write'} #{i} of op {at}] " + v["msg"]
            res["violations"].append(v)
            break
    res["detail"] += "|" + hashlib.sha256("".join(digs).encode()).hexdigest()[:16]
    return res
