"""C02 -- Network backpropagation yields the total derivative of any module graph.

System under test: real pymoto.Network / Module.response/sensitivity/reset / Signal.add_sensitivity / SignalSlice.
The modules inside are harness modules with exactly known Jacobians, so a defect of a *library* module's own Jacobian
(C01) can never be reported here.  The simulated dimension is the schedule: the module list is a randomly drawn
topological order of the generated DAG, nested networks wrap random contiguous sub-lists, outputs are seeded in random
subsets/orders, and cycles of set-inputs/response/seed/sensitivity[/sensitivity]/reset are repeated.
Oracle: independent forward-mode reference executor (dense total Jacobian) -> expected source sensitivity J^T w.
"""
import contextlib
import io
import warnings

import numpy as np

from sim import seams
from sim.core import sub_rng

PROP = "C02"
LEVEL = "exploration"
TIERS = {"quick": dict(runs=20000, chunk=250), "thorough": dict(budget_s=480, max_runs=2_000_000, chunk=150)}
RULE = ("one case = a generated module program: 1-3 source signals (Python float, vector<=4, 2x2; all-real or all-complex "
        "holomorphic), 0-2 pre-allocated buffer signals written through slices, 1-8 harness modules (affine multi-in/multi-out, "
        "tanh / square, product, sum returning the same array object twice) wired into a DAG with fan-out, a signal used twice "
        "by one module, inputs through basic/tuple/index-array slices, dangling outputs, zero Jacobian blocks returned as None; "
        "schedule = random topological order + nesting into sub-Networks (depth<=2) + 1-4 cycles with seeded-output subsets, "
        "double sensitivity, print_timing under clock jumps, permuted sig_in/sig_out; distinct = distinct abstract traces "
        "(module types in execution order, nesting, slice kinds, per-cycle seed pattern); non-trivial = the DAG has fan-out or a "
        "shared/sliced signal or more than one cycle")
PROBES = ["adjoint_source_without_outputs", "auto_created_output_signal", "built_by_append", "inner_network_extended_after_nesting", "matrix_signal_dyad_sensitivity", "same_object_for_two_inputs", "signal_used_twice", "output_into_slice", "nested_depth2", "unseeded_branch_skipped",
          "second_sensitivity_without_reset", "fan_out", "index_array_input", "python_float_signal", "keep_alloc_source",
          "none_block", "order_differs_from_creation", "complex_program", "intermediate_seeded", "partial_seed_multi_output", "slice_of_slice_input", "mixed_slice_and_index_array_input"]
FAULT_KINDS = ["clock_jump", "set_order_permutation"]
COMPONENTS = {"real": ["pymoto.Network", "pymoto.Module (response/sensitivity/reset)", "pymoto.Signal", "SignalSlice"],
              "stub": ["harness modules with exact Jacobians (by design)", "simulated clock"]}
ASSUMPTIONS = ["harness modules' Jacobians are exact (affine, tanh, square, product)",
               "a program is all-real or all-complex-holomorphic; real<->complex cross-over modules are C01 territory"]
NOT_EXERCISED = []

pym = None
H = {}


def setup():
    global pym
    seams.install()
    pym = seams.import_pymoto()
    _define_modules()


# ------------------------------------------------------------------------------------------------ harness modules
def _define_modules():
    Module = pym.Module

    class Affine(Module):
        """ y_o = sum_i A[o][i] @ vec(x_i) + c_o ; exact Jacobian blocks A[o][i] (None = structurally zero block) """
        def _prepare(self, A=None, c=None, out_shapes=None, in_float=None, none_for_zero=True):
            self.A, self.c, self.out_shapes, self.in_float, self.none_for_zero = A, c, out_shapes, in_float, none_for_zero
            self.seen_w = None

        def _response(self, *xs):
            xs = [np.asarray(x).ravel() for x in xs]
            self.in_shapes = [np.shape(s.state) for s in self.sig_in]
            ys = []
            for o, sh in enumerate(self.out_shapes):
                y = self.c[o].copy()
                for i, x in enumerate(xs):
                    if self.A[o][i] is not None:
                        y = y + self.A[o][i] @ x
                if sh == "float":
                    y = y[0].item()
                else:
                    y = y.reshape(sh)
                ys.append(y)
            return ys

        def _sensitivity(self, *dys):
            self.seen_w = dys
            outs = []
            for i in range(len(self.sig_in)):
                g = None
                for o, dy in enumerate(dys):
                    if dy is None or self.A[o][i] is None:
                        continue
                    t = self.A[o][i].T @ np.asarray(dy).ravel()
                    g = t if g is None else g + t
                if g is None:
                    if self.none_for_zero:
                        outs.append(None)
                        continue
                    g = np.zeros(int(np.prod(self.in_shapes[i], dtype=int)), dtype=self.c[0].dtype)
                outs.append(g[0].item() if self.in_float[i] else g.reshape(self.in_shapes[i]))
            return outs

    class Elt(Module):
        """ real: y = tanh(x); complex: y = x*x (holomorphic) """
        def _prepare(self, cplx=False):
            self.cplx = cplx

        def _response(self, x):
            self.x = x
            return x * x if self.cplx else np.tanh(x)

        def _sensitivity(self, dy):
            return dy * (2 * self.x) if self.cplx else dy * (1 - np.tanh(self.x) ** 2)

    class Prod(Module):
        def _response(self, a, b):
            self.a, self.b = a, b
            return a * b

        def _sensitivity(self, dy):
            return dy * self.b, dy * self.a

    class Sum2(Module):
        """ returns the SAME array object for both inputs (exposes a missing copy in the accumulation) """
        def _response(self, a, b):
            return a + b

        def _sensitivity(self, dy):
            return dy, dy

    class Sink(Module):
        """ no output signals: an adjoint source by itself (e.g. a logged objective); adds the constant c to its input """
        def _prepare(self, c=None, as_float=False):
            self.c, self.as_float = c, as_float

        def _response(self, x):
            return []

        def _sensitivity(self):
            return float(self.c[0]) if self.as_float else self.c.copy()

    class DiagMat(Module):
        """ K = diag(x): matrix-valued signal; the incoming sensitivity is an ndarray or a DyadCarrier """
        def _response(self, x):
            return np.diag(np.asarray(x, dtype=float))

        def _sensitivity(self, dK):
            return np.asarray(dK.diagonal()).copy()

    class AddMat(Module):
        """ Z = A + B; hands the SAME sensitivity object (ndarray or DyadCarrier) to both inputs """
        def _response(self, A, B):
            return A + B

        def _sensitivity(self, dZ):
            return dZ, dZ

    class Bilin(Module):
        """ g = u^T M v; its matrix sensitivity is a DyadCarrier (the container type LinSolve/EigenSolve produce) """
        def _prepare(self, u=None, v=None):
            self.u, self.v = u, v

        def _response(self, M):
            return float(self.u @ M @ self.v)

        def _sensitivity(self, dg):
            return pym.DyadCarrier(self.u * dg, self.v)

    H.update(Affine=Affine, Elt=Elt, Prod=Prod, Sum2=Sum2, DiagMat=DiagMat, AddMat=AddMat, Bilin=Bilin, Sink=Sink)


# ------------------------------------------------------------------------------------------------ generation
def gen(rng, idx, tier):
    cplx = bool(rng.random() < 0.25)
    nsrc = int(rng.integers(1, 4))
    sources = []
    for _ in range(nsrc):
        r = rng.random()
        shape = "float" if (r < 0.15 and not cplx) else ([2, 2] if r < 0.3 else ([int(rng.integers(2, 4)), int(rng.integers(2, 5))] if r < 0.45
                                                                                   else [int(rng.integers(1, 5))]))
        sources.append(dict(shape=shape, keep_alloc=bool(rng.random() < 0.2 and shape != "float")))
    nbuf = int(rng.integers(0, 3))
    matrix_flavour = bool(rng.random() < 0.3) and not cplx      # matrix-valued signals with DyadCarrier sensitivities
    sinks = bool(rng.random() < 0.25)                           # modules without outputs that are adjoint sources
    mods = []
    for _ in range(int(rng.integers(1, 15 if tier == "thorough" else 9))):
        t = str(rng.choice(["affine", "affine", "affine", "elt", "prod", "sum2"] + (["sink"] if sinks else []) +
                           (["diagmat", "diagmat", "addmat", "bilin", "bilin"] if matrix_flavour else [])))
        nin = int(rng.integers(1, 4)) if t == "affine" else (1 if t in ("elt", "diagmat", "bilin", "sink") else 2)
        nout = int(rng.integers(1, 3)) if t == "affine" else 1
        mods.append(dict(type=t, seed=int(rng.integers(1 << 30)),
                         ins=[dict(ref=int(rng.integers(0, 64)),
                                   sl=(None if rng.random() < 0.6 else
                                       dict(t=str(rng.choice(["basic", "idx", "tuple", "sl_idx", "idx_sl", "ell_idx", "int_idx", "mask"])),
                                            a=float(rng.random()),
                                            b=float(rng.random()), pseed=int(rng.integers(1 << 30)))))
                              for _ in range(nin)],
                         outs=[dict(size=int(rng.integers(1, 5)), to_buf=bool(rng.random() < 0.35),
                                    as_float=bool(rng.random() < 0.15)) for _ in range(nout)],
                         zero_block=bool(rng.random() < 0.3), none_for_zero=bool(rng.random() < 0.7)))
    ops = []
    for _ in range(int(rng.integers(1, 8 if tier == "thorough" else 5))):
        ops.append(dict(inseed=int(rng.integers(1 << 30)), seedsel=[int(s) for s in rng.integers(0, 64, size=int(rng.integers(1, 4)))],
                        wseed=int(rng.integers(1 << 30)), double=bool(rng.random() < 0.3),
                        sens_without_seed=bool(rng.random() < 0.1)))
    return dict(cplx=cplx, sources=sources, nbuf=nbuf, mods=mods, order_seed=int(rng.integers(1 << 30)),
                nest_seed=int(rng.integers(1 << 30)), nest=bool(rng.random() < 0.5),
                print_timing=[False, False, True, 0.0, 1e9][int(rng.integers(0, 5))],
                clock=[float(x) for x in rng.choice([1e-3, -5.0, 100.0, 0.0, -1e6], size=4)],
                perm_seed=int(rng.integers(1 << 30)), ops=ops)


def simplify(case):
    import json
    from sim.core import jdump
    for i in range(len(case["mods"]) - 1, -1, -1):
        if len(case["mods"]) > 1:
            c = json.loads(jdump(case))
            del c["mods"][i]
            yield c
    for key, val in (("nest", False), ("print_timing", False), ("cplx", False), ("nbuf", 0)):
        if case[key] != val:
            c = json.loads(jdump(case))
            c[key] = val
            yield c
    for i, m in enumerate(case["mods"]):
        for j, inp in enumerate(m["ins"]):
            if inp["sl"] is not None:
                c = json.loads(jdump(case))
                c["mods"][i]["ins"][j]["sl"] = None
                yield c
        for j, o in enumerate(m["outs"]):
            if o["to_buf"]:
                c = json.loads(jdump(case))
                c["mods"][i]["outs"][j]["to_buf"] = False
                yield c


# ------------------------------------------------------------------------------------------------ program construction
class View:
    """ a signal view: entries `idx` (flat indices) of base signal `base`, presented with `shape` ('float' = Python float) """
    def __init__(self, sig, base, idx, shape, kinds=()):
        self.sig, self.base, self.idx, self.shape, self.kinds = sig, base, np.asarray(idx, dtype=int), shape, tuple(kinds)

    @property
    def size(self):
        return len(self.idx)


SLICE_KINDS = ("basic", "idx", "tuple", "sl_idx", "idx_sl", "int_idx", "mask")


def _mk_slice(spec, shape):
    """ -> (index object, kind) valid for an array of `shape` (non-empty selection, no repeats) """
    n0 = shape[0]
    lo = int(spec["a"] * n0) % n0
    hi = min(n0, lo + 1 + int(spec["b"] * (n0 - lo)))
    if spec["t"] == "idx":
        perm = sub_rng(0x2, spec["pseed"]).permutation(n0)
        return np.array(perm[:max(1, hi - lo)]), "idx"
    if spec["t"] == "mask":
        m = np.zeros(n0, dtype=bool)
        m[sub_rng(0x2, spec["pseed"]).permutation(n0)[:max(1, hi - lo)]] = True
        return m, "mask"
    if len(shape) == 2:
        n1 = shape[1]
        cols = np.array(sub_rng(0x3, spec["pseed"]).permutation(n1)[:1 + int(spec["b"] * n1) % n1])
        if spec["t"] == "tuple":
            return (slice(lo, hi), int(spec["b"] * n1) % n1), "tuple"
        if spec["t"] == "sl_idx":         # basic slice before an index array: numpy hands out a view of a temporary
            return (slice(lo, hi), cols), "sl_idx"
        if spec["t"] == "ell_idx":
            return (Ellipsis, cols), "sl_idx"
        if spec["t"] == "idx_sl":
            return (np.array(sub_rng(0x2, spec["pseed"]).permutation(n0)[:max(1, hi - lo)]), slice(0, 1 + int(spec["a"] * n1) % n1)), "idx_sl"
        if spec["t"] == "int_idx":
            return (lo, cols), "int_idx"
    return slice(lo, hi), "basic"


def build(case):
    """ Builds real signals/modules and the reference description. Returns dict with everything run() needs. """
    Signal = pym.Signal
    cplx = case["cplx"]
    dt = complex if cplx else float
    bases = []      # dict(sig, size, shape, kind: src|buf|out)
    views = []
    info = dict(probes={})

    def probe(k):
        info["probes"][k] = info["probes"].get(k, 0) + 1

    for i, s in enumerate(case["sources"]):
        if s["shape"] == "float":
            sig = Signal(f"s{i}", state=0.0)
            bases.append(dict(sig=sig, size=1, shape="float", kind="src", keep=False))
            probe("python_float_signal")
        else:
            shp = tuple(s["shape"])
            size = int(np.prod(shp))
            sens0 = np.zeros(shp, dtype=dt) if s["keep_alloc"] else None
            sig = Signal(f"s{i}", state=np.zeros(shp, dtype=dt), sensitivity=sens0)
            bases.append(dict(sig=sig, size=size, shape=shp, kind="src", keep=s["keep_alloc"]))
            if s["keep_alloc"]:
                probe("keep_alloc_source")
        views.append(View(bases[-1]["sig"], len(bases) - 1, np.arange(bases[-1]["size"]), bases[-1]["shape"]))
    buf_free = []
    for b in range(case["nbuf"]):
        sig = Signal(f"buf{b}", state=np.zeros(4, dtype=dt))
        bases.append(dict(sig=sig, size=4, shape=(4,), kind="buf", keep=False))
        buf_free.append([len(bases) - 1, 0])
        buf_free.append([len(bases) - 1, 2])
    buf_views_added = set()

    mods = []       # dict(mod, type, ins=[View], outs=[View], jac=callable(xs)->blocks)
    mviews = []     # matrix-valued views (consumed only by AddMat / Bilin: container sensitivities do not mix with ndarrays)
    for mi, m in enumerate(case["mods"]):
        rng = sub_rng(0x20, m["seed"])
        ins = []
        for inp in m["ins"]:
            v = views[inp["ref"] % len(views)]
            if inp["sl"] is not None and v.shape != "float" and v.size > 1 and len(v.kinds) < 2 and \
                    all(k in SLICE_KINDS for k in v.kinds):
                shp = v.shape
                ix, kind = _mk_slice(inp["sl"], shp)
                ent = np.arange(v.size).reshape(shp)[ix]
                sub = v.sig[ix]
                if v.kinds:
                    probe("slice_of_slice_input")
                v = View(sub, v.base, v.idx[np.asarray(ent).ravel()], np.shape(ent), kinds=v.kinds + (kind,))
                if kind in ("idx", "mask"):
                    probe("index_array_input")
                if kind in ("sl_idx", "idx_sl", "int_idx"):
                    probe("mixed_slice_and_index_array_input")
            ins.append(v)
        t = m["type"]
        if t in ("diagmat", "addmat", "bilin"):
            # matrix world: DiagMat (vector -> matrix), AddMat (matrix, matrix -> matrix), Bilin (matrix -> scalar)
            done = False
            if t == "diagmat":
                v = ins[0]
                if v.shape != "float" and len(v.shape) == 1 and v.size <= 3:
                    n_ = v.size
                    sig = Signal(f"m{mi}K")
                    bases.append(dict(sig=sig, size=n_ * n_, shape=(n_, n_), kind="out", keep=False, mat=True))
                    ov = View(sig, len(bases) - 1, np.arange(n_ * n_), (n_, n_), kinds=("mat",))
                    mod = H["DiagMat"](v.sig, sig)
                    Jd = np.zeros((n_ * n_, n_))
                    for q in range(n_):
                        Jd[q * n_ + q, q] = 1.0
                    mods.append(dict(mod=mod, type=t, ins=[v], outs=[ov], jac=lambda xs, Jd=Jd: [[Jd]],
                                     fwd=lambda xs, Jd=Jd: [Jd @ xs[0]]))
                    mviews.append(ov)
                    probe("matrix_signal_dyad_sensitivity")
                    done = True
            elif t == "addmat" and mviews:
                a = mviews[m["ins"][0]["ref"] % len(mviews)]
                b = next((c for off in range(len(mviews)) for c in [mviews[(m["ins"][1]["ref"] + off) % len(mviews)]]
                          if c.shape == a.shape), a)
                sig = Signal(f"m{mi}Z")
                bases.append(dict(sig=sig, size=a.size, shape=a.shape, kind="out", keep=False, mat=True))
                ov = View(sig, len(bases) - 1, np.arange(a.size), a.shape, kinds=("mat",))
                mod = H["AddMat"]([a.sig, b.sig], sig)
                I_ = np.eye(a.size)
                mods.append(dict(mod=mod, type=t, ins=[a, b], outs=[ov], jac=lambda xs, I_=I_: [[I_, I_]],
                                 fwd=lambda xs: [xs[0] + xs[1]]))
                mviews.append(ov)
                probe("same_object_for_two_inputs")
                if a is b:
                    probe("signal_used_twice")
                done = True
            elif t == "bilin" and mviews:
                a = mviews[m["ins"][0]["ref"] % len(mviews)]
                n_ = a.shape[0]
                u_, v_ = rng.uniform(-1, 1, n_), rng.uniform(-1, 1, n_)
                sig = Signal(f"m{mi}g", state=0.0)
                bases.append(dict(sig=sig, size=1, shape="float", kind="out", keep=False))
                ov = View(sig, len(bases) - 1, np.arange(1), "float")
                mod = H["Bilin"](a.sig, sig, u=u_, v=v_)
                Jb = np.outer(u_, v_).reshape(1, -1)
                mods.append(dict(mod=mod, type=t, ins=[a], outs=[ov], jac=lambda xs, Jb=Jb: [[Jb]],
                                 fwd=lambda xs, Jb=Jb: [Jb @ xs[0]]))
                views.append(ov)
                done = True
            if done:
                continue
            t = "elt"
        if t in ("prod", "sum2"):
            a = ins[0]
            partner = None
            for off in range(len(views)):
                c = views[(m["ins"][1]["ref"] + off) % len(views)]
                if c.shape == a.shape:
                    partner = c
                    break
            b = partner if partner is not None else a
            ins = [a, b]
        if t == "elt":
            ins = ins[:1]
        if t == "sink":
            v = ins[0]
            cdat = rng.uniform(-1, 1, v.size).astype(dt)
            mod = H["Sink"](v.sig, c=cdat.reshape(np.shape(np.zeros(v.shape)) if v.shape != "float" else (1,)), as_float=(v.shape == "float"))
            mods.append(dict(mod=mod, type=t, ins=[v], outs=[], jac=lambda xs: [], fwd=lambda xs: [], sink=cdat))
            probe("adjoint_source_without_outputs")
            continue
        # outputs
        outs = []
        if t == "affine":
            ospecs = m["outs"]
        else:
            ospecs = [dict(size=ins[0].size, to_buf=m["outs"][0]["to_buf"], as_float=False)]
        for oi, o in enumerate(ospecs):
            size = o["size"] if t == "affine" else ins[0].size
            shape = (size,) if t == "affine" else ins[0].shape
            if t == "affine" and o.get("as_float") and not cplx:
                size, shape = 1, "float"
            if o["to_buf"] and buf_free and shape != "float" and (t == "affine" or tuple(np.shape(np.zeros(shape))) == (2,)):
                bi, start = buf_free.pop(0)
                sig = bases[bi]["sig"][start:start + 2]
                outs.append(View(sig, bi, np.arange(start, start + 2), (2,), kinds=("outslice",)))
                probe("output_into_slice")
                buf_views_added.add(bi)
                continue
            if shape == "float":
                sig = Signal(f"m{mi}o{oi}", state=0.0)
                bases.append(dict(sig=sig, size=1, shape="float", kind="out", keep=False))
            else:
                sig = Signal(f"m{mi}o{oi}")
                bases.append(dict(sig=sig, size=size, shape=tuple(shape), kind="out", keep=False))
            outs.append(View(sig, len(bases) - 1, np.arange(size), shape))
        # real module + exact jacobian
        if t == "affine":
            A = []
            for o in outs:
                row = []
                for i_, v in enumerate(ins):
                    blk = rng.uniform(-1, 1, (o.size, v.size))
                    if cplx:
                        blk = blk + 1j * rng.uniform(-1, 1, (o.size, v.size))
                    row.append(blk)
                A.append(row)
            if m["zero_block"] and len(ins) > 0:
                zi = int(rng.integers(0, len(ins)))
                for row in A:
                    row[zi] = None
                probe("none_block")
            c = [rng.uniform(-1, 1, o.size).astype(dt) for o in outs]
            mod = H["Affine"]([v.sig for v in ins], [o.sig for o in outs], A=A, c=c,
                              out_shapes=[o.shape for o in outs], in_float=[v.shape == "float" for v in ins],
                              none_for_zero=m["none_for_zero"])

            def jac(xs, A=A):
                return A

            def fwd(xs, A=A, c=c):
                return [sum((blk @ x for blk, x in zip(row, xs) if blk is not None), start=cc.copy()) for row, cc in zip(A, c)]
        elif t == "elt":
            if m["seed"] % 4 == 0 and "outslice" not in outs[0].kinds and outs[0].shape != "float":
                mod = H["Elt"](ins[0].sig, cplx=cplx)              # output signal created by the Module itself
                outs[0].sig = mod.sig_out[0]
                bases[outs[0].base]["sig"] = mod.sig_out[0]
                probe("auto_created_output_signal")
            else:
                mod = H["Elt"](ins[0].sig, outs[0].sig, cplx=cplx)

            def jac(xs):
                return [[np.diag(2 * xs[0]) if cplx else np.diag(1 - np.tanh(xs[0]) ** 2)]]

            def fwd(xs):
                return [xs[0] * xs[0] if cplx else np.tanh(xs[0])]
        elif t == "prod":
            mod = H["Prod"]([ins[0].sig, ins[1].sig], outs[0].sig)

            def jac(xs):
                return [[np.diag(xs[1]), np.diag(xs[0])]]

            def fwd(xs):
                return [xs[0] * xs[1]]
        else:
            mod = H["Sum2"]([ins[0].sig, ins[1].sig], outs[0].sig)
            probe("same_object_for_two_inputs")

            def jac(xs):
                return [[np.eye(len(xs[0])), np.eye(len(xs[1]))]]

            def fwd(xs):
                return [xs[0] + xs[1]]
        if len(ins) >= 2 and any(ins[i].sig is ins[j].sig or (ins[i].base == ins[j].base and
                                 len(np.intersect1d(ins[i].idx, ins[j].idx)) > 0)
                                 for i in range(len(ins)) for j in range(i + 1, len(ins))):
            probe("signal_used_twice")
        mods.append(dict(mod=mod, type=t, ins=ins, outs=outs, jac=jac, fwd=fwd))
        for o in outs:
            if "outslice" not in o.kinds:
                views.append(o)
        # a buffer becomes readable as a whole once something was written into it
        for bi in sorted(buf_views_added):
            if not any(v.base == bi and v.size == 4 for v in views):
                views.append(View(bases[bi]["sig"], bi, np.arange(4), (4,)))
                # no further writer once the buffer can be read as a whole (a later writer would make an earlier reader see
                # the previous cycle's values: a write-after-read hazard of the *program*, not of the Network)
                buf_free[:] = [bf for bf in buf_free if bf[0] != bi]
    return dict(bases=bases, mods=mods, info=info)


def dependencies(mods):
    """ j depends on i (i<j in creation order) if i writes entries that j reads """
    deps = {j: set() for j in range(len(mods))}
    for j, mj in enumerate(mods):
        for i in range(j):
            mi = mods[i]
            for o in mi["outs"]:
                for v in mj["ins"]:
                    if o.base == v.base and len(np.intersect1d(o.idx, v.idx)) > 0:
                        deps[j].add(i)
    return deps


def topo_order(n, deps, seed):
    rng = sub_rng(0x21, seed)
    done, order = set(), []
    while len(order) < n:
        ready = [j for j in range(n) if j not in done and deps[j] <= done]
        j = ready[int(rng.integers(0, len(ready)))]
        order.append(j)
        done.add(j)
    return order


def nest(modlist, seed, Network, print_timing, depth_probe, deferred):
    """ wrap random contiguous sub-lists into nested Networks (depth <= 2).  Some inner networks are first created with
    only the head of their sub-list; the tail is appended (Network.append) *after* the outer network has been built --
    the incremental construction style of the documentation ("appending modules to a network") """
    rng = sub_rng(0x22, seed)
    items = list(modlist)
    depth = 0
    for level in range(2):
        if len(items) < 2 or rng.random() < 0.3:
            break
        lo = int(rng.integers(0, len(items) - 1))
        hi = int(rng.integers(lo + 1, len(items))) + 1
        members = items[lo:hi]
        pt = print_timing if rng.random() < 0.5 else False
        if len(members) >= 2 and rng.random() < 0.5:
            cut = int(rng.integers(1, len(members)))
            sub = Network(members[:cut], print_timing=pt)
            deferred.append((sub, members[cut:]))
        else:
            sub = Network(members, print_timing=pt)
        items = items[:lo] + [sub] + items[hi:]
        depth += 1
        if level == 1 and any(isinstance(x, Network) for x in members):
            depth_probe.append(2)
    return items, depth


# ------------------------------------------------------------------------------------------------ run
def run(case):
    warnings.simplefilter("ignore")
    np.seterr(all="ignore")
    seams.reset_run([2, case["order_seed"]])
    seams.state["clock_script"] = list(case["clock"])
    res = dict(trace=[], nontrivial=False, steps=0, probes={}, faults={}, skipped={}, violations=[], margins={})
    P = res["probes"]

    def probe(k, c=1):
        P[k] = P.get(k, 0) + c

    def viol(clause, msg, at, feats=()):
        res["violations"].append(dict(cls=["C02", clause], msg=msg, at=at, features=list(feats)))

    Network = pym.Network
    cplx = case["cplx"]
    dt = complex if cplx else float
    if cplx:
        probe("complex_program")
    try:
        prog = build(case)
    except Exception as ex:  # noqa  construction of a legal program failed inside the library
        viol("exception-build", f"building the program raised {type(ex).__name__}: {str(ex)[:200]}", 0)
        return res
    for k, v in prog["info"]["probes"].items():
        probe(k, v)
    bases, mods = prog["bases"], prog["mods"]
    deps = dependencies(mods)
    order = topo_order(len(mods), deps, case["order_seed"])
    if order != sorted(order):
        probe("order_differs_from_creation")
    # fan-out: an entry read by more than one module input
    reads = {}
    for m in mods:
        for v in m["ins"]:
            for e in v.idx:
                reads[(v.base, int(e))] = reads.get((v.base, int(e)), 0) + 1
    fan_out = any(c > 1 for c in reads.values())
    if fan_out:
        probe("fan_out")
    sliced = any(v.kinds for m in mods for v in m["ins"] + m["outs"])
    depth2 = []
    pt = case["print_timing"]
    out = io.StringIO()
    try:
        with contextlib.redirect_stdout(out):
            deferred = []
            if case["nest"]:
                items, depth = nest([mods[j]["mod"] for j in order], case["nest_seed"], Network, pt, depth2, deferred)
            else:
                items, depth = [mods[j]["mod"] for j in order], 0
            if case["nest_seed"] % 3 == 0:
                net = Network(print_timing=pt)            # incremental construction of the outer network
                for it in items:
                    net.append(it)
                probe("built_by_append")
            else:
                net = Network(items, print_timing=pt)
            for sub, tail in deferred:                    # inner networks extended after they were nested
                sub.append(*tail)
                probe("inner_network_extended_after_nesting")
    except Exception as ex:  # noqa
        viol("exception-build", f"Network construction raised {type(ex).__name__}: {str(ex)[:200]}", 0)
        return res
    if depth2:
        probe("nested_depth2")
    # order seam: sig_in / sig_out list order depends on object addresses -> permute explicitly
    prng = sub_rng(0x23, case["perm_seed"])
    net.sig_in = [net.sig_in[i] for i in prng.permutation(len(net.sig_in))]
    net.sig_out = [net.sig_out[i] for i in prng.permutation(len(net.sig_out))]
    res["faults"]["set_order_permutation"] = 1
    res["trace"].append("P:" + ",".join(mods[j]["type"] for j in order) + f":n{depth}:{'s' if sliced else '-'}:{pt}")
    res["nontrivial"] = fan_out or sliced or len(case["ops"]) > 1

    src = [i for i, b in enumerate(bases) if b["kind"] == "src"]
    nsrc_entries = sum(bases[i]["size"] for i in src)
    off = {}
    o = 0
    for i in src:
        off[i] = o
        o += bases[i]["size"]
    detail = []

    def reference(xsrc):
        """ forward-mode: values and tangents (wrt all source entries) of every base signal, in creation order """
        val = {i: (xsrc[i].copy() if b["kind"] == "src" else np.zeros(b["size"], dtype=dt)) for i, b in enumerate(bases)}
        tan = {i: np.zeros((b["size"], nsrc_entries), dtype=dt) for i, b in enumerate(bases)}
        for i in src:
            tan[i][:, off[i]:off[i] + bases[i]["size"]] = np.eye(bases[i]["size"])
        for m in mods:
            xs = [val[v.base][v.idx] for v in m["ins"]]
            dxs = [tan[v.base][v.idx, :] for v in m["ins"]]
            ys = m["fwd"](xs)
            J = m["jac"](xs)
            for oi, ov in enumerate(m["outs"]):
                val[ov.base][ov.idx] = ys[oi]
                dy = np.zeros((ov.size, nsrc_entries), dtype=dt)
                for ii in range(len(xs)):
                    if J[oi][ii] is not None:
                        dy = dy + J[oi][ii] @ dxs[ii]
                tan[ov.base][ov.idx, :] = dy
        return val, tan

    def all_signals():
        sigs = []
        for b in bases:
            sigs.append(b["sig"])
        for m in mods:
            for v in m["ins"] + m["outs"]:
                sigs.append(v.sig)
        return sigs

    for at, op in enumerate(case["ops"]):
        res["steps"] += 1
        rng = sub_rng(0x24, op["inseed"])
        xsrc = {}
        for i in src:
            x = rng.uniform(-1, 1, bases[i]["size"])
            if cplx:
                x = x + 1j * rng.uniform(-1, 1, bases[i]["size"])
            xsrc[i] = x.astype(dt)
            if bases[i]["shape"] == "float":
                bases[i]["sig"].state = float(x[0])
            else:
                bases[i]["sig"].state = x.reshape(bases[i]["shape"]).copy()
        val, tan = reference(xsrc)
        c0 = seams.state["clock_reads"]
        try:
            with contextlib.redirect_stdout(out):
                net.response()
        except Exception as ex:  # noqa
            viol("exception", f"cycle {at}: response() raised {type(ex).__name__}: {str(ex)[:200]}", at)
            break
        # forward values (diagnostic for the harness itself; a mismatch here is a state-propagation error of the Network)
        bad = None
        for i, b in enumerate(bases):
            if b["kind"] == "out" or (b["kind"] == "buf"):
                st = b["sig"].state
                if st is None:
                    continue
                if not np.allclose(np.asarray(st).ravel(), val[i], rtol=1e-10, atol=1e-12):
                    bad = i
                    break
        if bad is not None:
            viol("forward-state", f"cycle {at}: state of signal '{bases[bad]['sig'].tag}' after response() differs from the "
                 f"reference executor", at)
            break
        # choose seeded signals among the module outputs, seeded through the very signal object the module writes to
        # (for an output into a slice that is the SignalSlice: entries of a buffer that no module owns are not part of the
        # network, and resetting a slice clears only its own entries)
        cands = [o for m in mods for o in m["outs"] if o.sig.state is not None and "mat" not in o.kinds]
        seeded = {}      # key: index into cands
        wr = sub_rng(0x25, op["wseed"])
        if cands and not op.get("sens_without_seed"):
            for s_ in op["seedsel"]:
                ci = s_ % len(cands)
                if ci in seeded:
                    continue
                w = wr.uniform(-1, 1, cands[ci].size)
                if cplx:
                    w = w + 1j * wr.uniform(-1, 1, cands[ci].size)
                seeded[ci] = w.astype(dt)
        seeded_bases = {cands[ci].base for ci in seeded}
        consumed = {v.base for m in mods for v in m["ins"]}
        if any(b in consumed for b in seeded_bases):
            probe("intermediate_seeded")
        for m in mods:
            so = [any(cands[ci] is o for ci in seeded) for o in m["outs"]]
            if len(so) > 1 and any(so) and not all(so):
                probe("partial_seed_multi_output")
        # expected: g_src = sum_j T_j^T w_j
        g_exp = np.zeros(nsrc_entries, dtype=dt)
        for ci, w in seeded.items():
            g_exp = g_exp + tan[cands[ci].base][cands[ci].idx, :].T @ w
        for m in mods:
            if m.get("sink") is not None:
                v = m["ins"][0]
                g_exp = g_exp + tan[v.base][v.idx, :].T @ m["sink"]
        ncalls = 2 if op["double"] else 1
        try:
            with contextlib.redirect_stdout(out):
                for ci, w in seeded.items():
                    if cands[ci].shape == "float":
                        cands[ci].sig.sensitivity = float(w[0])
                    else:
                        cands[ci].sig.sensitivity = w.reshape(cands[ci].shape).copy()
                for _ in range(ncalls):
                    net.sensitivity()
        except Exception as ex:  # noqa
            viol("exception", f"cycle {at}: sensitivity() raised {type(ex).__name__}: {str(ex)[:200]}", at,
                 feats=[f"exc={type(ex).__name__}"])
            break
        if op["double"]:
            probe("second_sensitivity_without_reset")
            # the second call re-propagates the *accumulated* sensitivities of intermediates: for a chain this is not simply
            # 2x; the reference replays the accumulation exactly
            g_exp = _expected_double(mods, order_of(mods, order), bases, tan,
                                     [(cands[ci].base, cands[ci].idx, w) for ci, w in seeded.items()], nsrc_entries, off, dt, val)
        # unseeded branches
        if any(all(o.base not in seeded_bases and not _downstream_seeded(o.base, mods, seeded_bases) for o in m["outs"]) for m in mods):
            probe("unseeded_branch_skipped")
        # compare on every source signal
        scale = max(1.0, float(np.max(np.abs(g_exp))) if g_exp.size else 1.0)
        worst = 0.0
        failed = False
        for i in src:
            ge = g_exp[off[i]:off[i] + bases[i]["size"]]
            gs = bases[i]["sig"].sensitivity
            if gs is None:
                if np.max(np.abs(ge)) > 1e-12 * scale:
                    viol("missing-sensitivity", f"cycle {at}: source '{bases[i]['sig'].tag}' has no sensitivity but the total "
                         f"derivative is {ge.tolist()}", at)
                    failed = True
                    break
                continue
            ga = np.asarray(gs)
            if ga.size != ge.size:
                viol("shape", f"cycle {at}: sensitivity of source '{bases[i]['sig'].tag}' has shape {ga.shape}, state has "
                     f"{bases[i]['shape']}", at)
                failed = True
                break
            if not cplx and np.iscomplexobj(ga):
                viol("dtype", f"cycle {at}: complex sensitivity on a real source", at)
                failed = True
                break
            err = float(np.max(np.abs(ga.ravel() - ge))) / scale
            worst = max(worst, err)
            if err > 1e-10:
                viol("total-derivative", f"cycle {at}: sensitivity of source '{bases[i]['sig'].tag}' = {ga.ravel().tolist()} but "
                     f"the total derivative of the seeded combination is {ge.tolist()} (seeded={sorted(cands[j].sig.tag for j in seeded)}, "
                     f"sensitivity() x{ncalls})", at, feats=[f"double={op['double']}"])
                failed = True
                break
        res["margins"]["sens_err_over_tol"] = max(res["margins"].get("sens_err_over_tol", 0.0), worst / 1e-10)
        if failed:
            break
        detail.append(float(np.sum(np.abs(g_exp))))
        # reset leaves nothing behind
        try:
            with contextlib.redirect_stdout(out):
                net.reset()
        except Exception as ex:  # noqa
            viol("exception", f"cycle {at}: reset() raised {type(ex).__name__}: {str(ex)[:200]}", at)
            break
        left = None
        for s in all_signals():
            g = s.sensitivity
            if g is not None and hasattr(g, "todense") and not isinstance(g, np.ndarray):
                g = g.todense()
            if g is not None and np.any(np.asarray(g) != 0):
                left = s
                break
        if left is not None:
            viol("reset-leftover", f"cycle {at}: after reset() signal '{left.tag}' still holds a non-zero sensitivity", at)
            break
        for i in src:
            if bases[i]["keep"] and bases[i]["sig"].sensitivity is None:
                viol("keep_alloc", f"cycle {at}: reset() dropped the pre-allocated sensitivity of '{bases[i]['sig'].tag}'", at)
                break
        if seams.state["clock_reads"] > c0:
            res["faults"]["clock_jump"] = res["faults"].get("clock_jump", 0) + 1
        res["trace"].append(f"C:{len(seeded)}:{'2x' if op['double'] else '1x'}:{'i' if any(b in consumed for b in seeded_bases) else 't'}")
        if res["violations"]:
            break
    res["detail"] = repr(detail)
    return res


def order_of(mods, order):
    return [mods[j] for j in order]


def _downstream_seeded(base, mods, seeded):
    """ does any seeded signal depend on `base`? (transitively, by creation order) """
    reach = {base}
    for m in mods:
        if any(v.base in reach for v in m["ins"]):
            for o in m["outs"]:
                reach.add(o.base)
    return any(i in reach for i in seeded)


def _expected_double(mods, ordered, bases, tan, seeded, nsrc_entries, off, dt, val):
    """ Exact replay of two sensitivity() passes without reset, in entry space.

    Backpropagation is linear: each module reads the *current accumulated* sensitivity of its outputs and adds J^T of it to
    its inputs.  Two passes therefore do not simply double intermediates-with-fan-in; we replay the accumulation with the
    exact Jacobians in reverse execution order (the property: each pass adds each path's contribution exactly once, given
    what is stored on the outputs at that moment).
    """
    G = {i: np.zeros(b["size"], dtype=dt) for i, b in enumerate(bases)}
    has = {i: False for i in range(len(bases))}
    for b_, idx_, w in seeded:
        G[b_][idx_] = G[b_][idx_] + w
        has[b_] = True
    for _ in range(2):
        for m in reversed(ordered):
            if m.get("sink") is not None:
                v = m["ins"][0]
                np.add.at(G[v.base], v.idx, m["sink"])
                has[v.base] = True
                continue
            if not any(has[o.base] for o in m["outs"]):
                continue
            xs = [val[v.base][v.idx] for v in m["ins"]]
            J = m["jac"](xs)
            for ii, v in enumerate(m["ins"]):
                g = np.zeros(v.size, dtype=dt)
                contributed = False
                for oi, o in enumerate(m["outs"]):
                    if J[oi][ii] is None or not has[o.base]:
                        continue
                    g = g + J[oi][ii].T @ G[o.base][o.idx]
                    contributed = True
                if contributed:
                    np.add.at(G[v.base], v.idx, g)
                    has[v.base] = True
    out = np.zeros(nsrc_entries, dtype=dt)
    for i, b in enumerate(bases):
        if b["kind"] == "src":
            out[off[i]:off[i] + b["size"]] = G[i]
    return out
