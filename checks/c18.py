"""C18 -- Signals and slices alias state, isolate accumulations and reset cleanly.

System under test: real pymoto.Signal / SignalSlice trees.  Histories of state/sensitivity assignments, add_sensitivity
(with aliasing probes), reset(keep_alloc) and slicing are generated as data; a plain-ndarray model (state, sensitivity
or None per base signal) is checked after every step for *every* live signal.
"""
import warnings

import numpy as np

from sim import seams
from sim.core import sub_rng

PROP = "C18"
LEVEL = "exploration"
TIERS = {"quick": dict(runs=20000, chunk=500), "thorough": dict(budget_s=480, max_runs=10_000_000, chunk=400)}
RULE = ("one case = 1-2 base signals (scalar or array of rank<=3, real/complex, with/without pre-allocated sensitivity) and "
        "up to 20 generated operations {slice, nested slice, set state, set sensitivity, add_sensitivity (fresh / same object "
        "to two signals / mutated by the caller afterwards), reset(keep_alloc), slice reset}; slices are described by "
        "fractions so they stay valid under shrinking; distinct = distinct abstract traces (op, target kind, slice kind, "
        "None-ness of the sensitivity before the op); non-trivial = at least one operation went through a slice or an aliasing probe ran")
PROBES = ["nested_slice_write", "same_object_added_twice", "caller_mutation_after_add", "keep_alloc_inplace_zero",
          "slice_add_creates_base_sens", "index_array_slice", "tuple_slice", "slice_reset_partial", "scalar_signal",
          "complex_data", "element_slice", "set_sens_none_on_slice", "index_array_on_later_axis", "zero_d_array_signal"]
FAULT_KINDS = ["aliasing_probe_same_object", "aliasing_probe_caller_mutation"]
COMPONENTS = {"real": ["pymoto.Signal", "pymoto.core_objects.SignalSlice"], "stub": []}
ASSUMPTIONS = ["index arrays contain no repeated entries; nested slices are basic slices (as the property states)",
               "sensitivities have the dtype kind of the state (mixed kinds raise by NumPy's casting rules)"]
NOT_EXERCISED = []

pym = None


def setup():
    global pym
    seams.install()
    pym = seams.import_pymoto()


# ------------------------------------------------------------------------------------------------ generation
def _slice_spec(rng):
    t = str(rng.choice(["basic", "basic", "tuple", "idx", "int", "idx_sl", "sl_idx", "ell_idx", "int_idx", "sl_idx_sl"]))
    fr = [[float(rng.random()), float(rng.random()), int(rng.choice([1, 1, 2, -1]))] for _ in range(3)]
    return dict(t=t, fr=fr, pseed=int(rng.integers(1 << 30)), frac=float(rng.random()))


def gen(rng, idx, tier):
    nb = int(rng.integers(1, 3))
    sigs = []
    for _ in range(nb):
        scalar = bool(rng.random() < 0.12)
        zero_d = bool(rng.random() < 0.1)
        rank = int(rng.integers(1, 4))
        shape = [int(rng.integers(1, 6)) for _ in range(rank)]
        if zero_d and not scalar:
            shape = []          # 0-d ndarray: a scalar value held in a (mutable) array
        sigs.append(dict(scalar=scalar, shape=shape, cplx=bool(rng.random() < 0.3), init_sens=bool(rng.random() < 0.3),
                         seed=int(rng.integers(1 << 30))))
    ops = []
    kinds = ["slice", "nest", "set_state", "set_sens", "add", "add", "add", "reset", "alias2", "mutate"]
    enabled = [k for k in kinds if rng.random() < 0.8] or ["add"]
    for _ in range(int(rng.integers(2, 45 if tier == "thorough" else 21))):
        k = str(rng.choice(enabled))
        op = dict(op=k, tgt=int(rng.integers(0, 64)), tgt2=int(rng.integers(0, 64)), seed=int(rng.integers(1 << 30)))
        if k in ("slice", "nest"):
            op["sl"] = _slice_spec(rng)
        if k == "reset":
            op["keep"] = [None, True, False][int(rng.integers(0, 3))]
        if k == "set_sens":
            op["none"] = bool(rng.random() < 0.3)
        ops.append(op)
    return dict(sigs=sigs, ops=ops)


# ------------------------------------------------------------------------------------------------ helpers
def _basic_axis(fr, dim):
    a, b, st = fr
    if dim <= 0:
        return slice(None)
    lo = int(a * dim) % dim
    hi = lo + 1 + int(b * (dim - lo))
    hi = min(max(hi, lo + 1), dim)
    if st == -1:
        return slice(hi - 1, None if lo == 0 else lo - 1, -1)
    return slice(lo, hi, st)


def realise_slice(spec, shape):
    """ -> (python index object, kind, is_basic) for an array of the given shape """
    t = spec["t"]
    nd = len(shape)
    if nd == 0:
        return None, "none", True
    if t == "basic" or (t in ("tuple",) and nd == 1):
        return _basic_axis(spec["fr"][0], shape[0]), "basic", True
    if t == "tuple":
        k = min(nd, 2 + int(spec["frac"] * 2))
        return tuple(_basic_axis(spec["fr"][i], shape[i]) for i in range(k)), "tuple", True
    if t == "int":
        return int(spec["frac"] * shape[0]) % shape[0], "int", True
    if t in ("sl_idx", "ell_idx", "int_idx", "sl_idx_sl") and nd >= 2:
        # an integer array on a later axis, preceded by a slice / Ellipsis / integer (numpy builds such results in a temporary)
        ax = nd - 1 if t in ("ell_idx", "int_idx") or nd == 2 else 1
        perm = sub_rng(0x52, spec["pseed"]).permutation(shape[ax])
        idx = np.array(perm[:max(1, int(np.ceil(spec["frac"] * shape[ax])))])
        if t == "ell_idx":
            return (Ellipsis, idx), "ell_idx", False
        if t == "int_idx":
            lead = tuple(int(spec["fr"][i][0] * shape[i]) % shape[i] for i in range(nd - 1))
            return lead + (idx,), "int_idx", False
        if t == "sl_idx_sl" and nd == 3:
            return (_basic_axis(spec["fr"][0], shape[0]), idx, _basic_axis(spec["fr"][2], shape[2])), "sl_idx_sl", False
        return (_basic_axis(spec["fr"][0], shape[0]), idx), "sl_idx", False
    perm = sub_rng(0x51, spec["pseed"]).permutation(shape[0])
    idx = perm[:max(1, int(np.ceil(spec["frac"] * shape[0])))]
    if t == "idx" or nd == 1:
        return np.array(idx), "idx", False
    return (np.array(idx), _basic_axis(spec["fr"][1], shape[1])), "idx_sl", False


def rand_like(seed, ref, cplx):
    rng = sub_rng(0x18, seed)
    shape = np.shape(ref)
    v = rng.uniform(-1, 1, shape)
    if cplx:
        v = v + 1j * rng.uniform(-1, 1, shape)
    if shape == () and not isinstance(ref, np.ndarray):
        return complex(v) if cplx else float(v)
    return np.asarray(v)


def same(a, b):
    if a is None or b is None:
        return a is None and b is None
    a, b = np.asarray(a), np.asarray(b)
    if a.shape != b.shape:
        return False
    if np.iscomplexobj(a) != np.iscomplexobj(b) and (np.any(np.imag(a) != 0) or np.any(np.imag(b) != 0)):
        return False
    return bool(np.all(a == b))


class MBase:
    """ model of one base signal: plain arrays """
    def __init__(self, state, sens, keep_alloc):
        self.S, self.G, self.keep = state, sens, keep_alloc


# ------------------------------------------------------------------------------------------------ run
def run(case):
    warnings.simplefilter("ignore")
    res = dict(trace=[], nontrivial=False, steps=0, probes={}, faults={}, skipped={}, violations=[])
    P = res["probes"]

    def probe(k):
        P[k] = P.get(k, 0) + 1

    def viol(clause, msg, at):
        res["violations"].append(dict(cls=["C18", clause], msg=msg, at=at, features=[]))

    Signal = pym.Signal
    bases, models = [], []
    live = []   # entries: dict(obj=real signal, base=i, path=[index objects], basic=bool)
    for i, s in enumerate(case["sigs"]):
        rng = sub_rng(0x180, s["seed"])
        if s["scalar"]:
            st = complex(rng.uniform(-1, 1), rng.uniform(-1, 1)) if s["cplx"] else float(rng.uniform(-1, 1))
            sens0 = (0j if s["cplx"] else 0.0) if s["init_sens"] else None
            probe("scalar_signal")
        else:
            st = rng.uniform(-1, 1, s["shape"])
            if s["cplx"]:
                st = st + 1j * rng.uniform(-1, 1, s["shape"])
            sens0 = np.zeros_like(st) if s["init_sens"] else None
        if s["cplx"]:
            probe("complex_data")
        if not s["scalar"] and len(s["shape"]) == 0:
            probe("zero_d_array_signal")
        obj = Signal(f"b{i}", state=st.copy() if hasattr(st, "copy") else st,
                     sensitivity=None if sens0 is None else (sens0.copy() if hasattr(sens0, "copy") else sens0))
        bases.append(obj)
        models.append(MBase(st.copy() if hasattr(st, "copy") else st,
                            None if sens0 is None else (sens0.copy() if hasattr(sens0, "copy") else sens0),
                            sens0 is not None))
        live.append(dict(obj=obj, base=i, path=[], basic=True, kinds=[]))

    def m_state(e):
        v = models[e["base"]].S
        for ix in e["path"]:
            v = v[ix]
        return v

    def m_sens(e):
        g = models[e["base"]].G
        if g is None:
            return None
        for ix in e["path"]:
            g = g[ix]
        return g

    def m_assign(arr, path, value, add=False):
        """ arr[path[0]][path[1]]... (=|+=) value with write-through for basic prefixes """
        v = arr
        for ix in path[:-1]:
            v = v[ix]
        if add:
            v[path[-1]] = v[path[-1]] + value
        else:
            v[path[-1]] = value

    def check_all(at, opname):
        for j, e in enumerate(live):
            try:
                rs, rg = e["obj"].state, e["obj"].sensitivity
            except Exception as ex:  # noqa
                viol("exception-read", f"reading signal {j} after {opname} raised {type(ex).__name__}: {str(ex)[:120]}", at)
                return False
            if not same(rs, m_state(e)):
                viol("state", f"after op {at} ({opname}): state of live signal {j} (kinds={e['kinds']}) differs from the model", at)
                return False
            if not same(rg, m_sens(e)):
                viol("sensitivity", f"after op {at} ({opname}): sensitivity of live signal {j} (kinds={e['kinds']}) differs "
                     f"from the model: real={None if rg is None else np.asarray(rg).tolist()} "
                     f"model={None if m_sens(e) is None else np.asarray(m_sens(e)).tolist()}", at)
                return False
        return True

    for at, op in enumerate(case["ops"]):
        res["steps"] += 1
        k = op["op"]
        e = live[op["tgt"] % len(live)]
        mb = models[e["base"]]
        is_scalar_base = not isinstance(mb.S, np.ndarray)
        cplx = np.iscomplexobj(mb.S)
        tr = k
        try:
            if k in ("slice", "nest"):
                parent = e if (k == "nest" and e["basic"] and len(e["path"]) < 2) else live[e["base"]]
                if is_scalar_base:
                    res["trace"].append("slice-skip")
                    continue
                pshape = np.shape(m_state(parent))
                if len(pshape) == 0:
                    res["trace"].append("slice-skip")
                    continue
                spec = dict(op["sl"])
                if parent["path"] and spec["t"] not in ("basic", "tuple"):
                    spec["t"] = "basic"          # nested slices are basic slices
                ix, kind, basic = realise_slice(spec, pshape)
                obj = parent["obj"][ix]
                live.append(dict(obj=obj, base=parent["base"], path=parent["path"] + [ix], basic=parent["basic"] and basic,
                                 kinds=parent["kinds"] + [kind]))
                if kind in ("idx", "idx_sl"):
                    probe("index_array_slice")
                if kind in ("sl_idx", "ell_idx", "int_idx", "sl_idx_sl"):
                    probe("index_array_on_later_axis")
                if kind == "tuple":
                    probe("tuple_slice")
                if kind == "int":
                    probe("element_slice")
                tr = f"slice:{'/'.join(parent['kinds'] + [kind])}"
            elif k == "set_state":
                val = rand_like(op["seed"], m_state(e), cplx)
                if e["path"]:
                    e["obj"].state = val.copy() if hasattr(val, "copy") else val
                    m_assign(mb.S, e["path"], val)
                    res["nontrivial"] = True
                    if len(e["path"]) > 1:
                        probe("nested_slice_write")
                else:
                    e["obj"].state = val.copy() if hasattr(val, "copy") else val
                    mb.S = val.copy() if hasattr(val, "copy") else val
                tr = f"set_state:{'/'.join(e['kinds']) or 'base'}"
            elif k == "set_sens":
                none = op.get("none", False)
                val = None if none else rand_like(op["seed"], m_state(e), cplx)
                if e["path"]:
                    e["obj"].sensitivity = None if val is None else (val.copy() if hasattr(val, "copy") else val)
                    if mb.G is None:
                        if val is not None:
                            mb.G = mb.S * 0
                            m_assign(mb.G, e["path"], val)
                            probe("slice_add_creates_base_sens")
                    else:
                        m_assign(mb.G, e["path"], 0 if val is None else val)
                        if val is None:
                            probe("set_sens_none_on_slice")
                    res["nontrivial"] = True
                    if len(e["path"]) > 1:
                        probe("nested_slice_write")
                else:
                    e["obj"].sensitivity = None if val is None else (val.copy() if hasattr(val, "copy") else val)
                    mb.G = None if val is None else (val.copy() if hasattr(val, "copy") else val)
                tr = f"set_sens:{'/'.join(e['kinds']) or 'base'}:{'None' if none else 'v'}"
            elif k in ("add", "alias2", "mutate"):
                val = rand_like(op["seed"], m_state(e), cplx)
                targets = [e]
                if k == "alias2":
                    e2 = live[op["tgt2"] % len(live)]
                    if np.shape(m_state(e2)) == np.shape(m_state(e)) and \
                            np.iscomplexobj(models[e2["base"]].S) == cplx and e2 is not e:
                        targets.append(e2)
                        probe("same_object_added_twice")
                        res["faults"]["aliasing_probe_same_object"] = res["faults"].get("aliasing_probe_same_object", 0) + 1
                        res["nontrivial"] = True
                g_none_before = mb.G is None
                given = val.copy() if hasattr(val, "copy") else val     # the object handed to the library (same for all targets)
                for t in targets:
                    t["obj"].add_sensitivity(given)
                    mt = models[t["base"]]
                    if t["path"]:
                        if mt.G is None:
                            mt.G = mt.S * 0
                            probe("slice_add_creates_base_sens")
                        m_assign(mt.G, t["path"], val, add=True)
                        res["nontrivial"] = True
                        if len(t["path"]) > 1:
                            probe("nested_slice_write")
                    else:
                        if mt.G is None:
                            mt.G = val.copy() if hasattr(val, "copy") else val
                        elif isinstance(mt.G, np.ndarray):
                            mt.G += val
                        else:
                            mt.G = mt.G + val
                if len(targets) == 2:
                    # adding something else to the first target must not change what the second holds
                    val2 = rand_like(op["seed"] + 7, m_state(e), cplx)
                    targets[0]["obj"].add_sensitivity(val2.copy() if hasattr(val2, "copy") else val2)
                    mt = models[targets[0]["base"]]
                    if targets[0]["path"]:
                        m_assign(mt.G, targets[0]["path"], val2, add=True)
                    elif isinstance(mt.G, np.ndarray):
                        mt.G += val2
                    else:
                        mt.G = mt.G + val2
                if k == "mutate" and isinstance(given, np.ndarray):
                    given[...] = 12345.0       # the caller changes its array afterwards
                    probe("caller_mutation_after_add")
                    res["faults"]["aliasing_probe_caller_mutation"] = res["faults"].get("aliasing_probe_caller_mutation", 0) + 1
                    res["nontrivial"] = True
                tr = f"{k}:{'/'.join(e['kinds']) or 'base'}:{'G0' if g_none_before else 'G1'}:{len(targets)}"
            elif k == "reset":
                keep = op.get("keep")
                if e["path"]:
                    e["obj"].reset(keep)
                    if mb.G is not None:
                        m_assign(mb.G, e["path"], 0)
                        probe("slice_reset_partial")
                    res["nontrivial"] = True
                else:
                    before = e["obj"].sensitivity
                    e["obj"].reset(keep)
                    eff = mb.keep if keep is None else keep
                    if mb.G is not None:
                        if eff:
                            if isinstance(mb.G, np.ndarray):
                                mb.G[...] = 0
                                if e["obj"].sensitivity is not before:
                                    viol("keep_alloc-identity", "reset(keep_alloc=True) replaced the sensitivity object "
                                         "instead of zeroing it in place", at)
                                probe("keep_alloc_inplace_zero")
                            else:
                                mb.G = mb.G * 0
                        else:
                            mb.G = None
                tr = f"reset:{'/'.join(e['kinds']) or 'base'}:{keep}"
        except Exception as ex:  # noqa
            viol("exception", f"op {at} ({k} on kinds={e['kinds']}) raised {type(ex).__name__}: {str(ex)[:200]}", at)
            res["trace"].append(tr + ":EXC")
            break
        res["trace"].append(tr)
        if not check_all(at, tr):
            break
    res["detail"] = ""
    return res
