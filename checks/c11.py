"""C11 -- EigenSolve returns genuine, normalised, ordered eigenpairs   (state / nondeterminism part)

System under test: long-lived real pymoto.EigenSolve instances (dense and sparse, standard and generalised, real
symmetric / complex Hermitian / general, FE pencils with boundary conditions).  Histories {set A[,B] (values change, class
fixed), response, adjoint cycle} are generated as data, 1-2 instances interleaved.  Nondeterminism behind a seam: ARPACK's
start vector (drawn from OS entropy in production) is a *different* seeded vector on every call.
Oracle at every response: eigen-residual, bilinear B-normalisation, order, sign rule, spectrum against a dense LAPACK
reference.
"""
import warnings

import numpy as np
import scipy.linalg as sla
import scipy.sparse as sps

from sim import seams
from sim.core import sub_rng
from sim import gen as G

PROP = "C11"
LEVEL = "exploration"
TIERS = {"quick": dict(runs=2400, chunk=50), "thorough": dict(budget_s=480, max_runs=300_000, chunk=100)}
RUN_WALL_CAP = 90
RULE = ("one case = EigenSolve configuration (dense/sparse, standard/generalised, matrix class, nmodes, sigma, sorting function, "
        "hermitian flag given or detected) + 1-2 instances + 2-10 generated operations {setA (new values), response, adjoint cycle "
        "(seed eigenvalues and/or eigenvectors, sensitivity, reset)}; every ARPACK call gets a different seeded start vector; "
        "distinct = distinct abstract traces; non-trivial = a response that follows an earlier response of the same instance with "
        "changed matrices (cached shift-invert solver / flags reused) or a sparse solve (start-vector injection fired)")
PROBES = ["sigma_inside_spectrum", "singular_B_on_constrained_dofs", "solver_reuse_3_matrices", "custom_sorting", "complex_hermitian",
          "general_complex_spectrum", "adjoint_cycle_between_responses", "sparse_eigvec_seed", "two_instances_interleaved",
          "closest_to_sigma_compared", "dense_full_spectrum_compared", "exact_zero_mean_eigenvector", "nonsymmetric_positive_definite_B", "default_nmodes", "fortran_ordered_input"]
FAULT_KINDS = ["arpack_start_vector_varied"]
COMPONENTS = {"real": ["pymoto.EigenSolve", "pymoto.solvers.auto_determine_solver / SolverSparseLU (shift-invert)",
                       "pymoto.AssembleStiffness / AssembleMass (FE pencils)", "scipy ARPACK (eigsh/eigs), LAPACK (eigh/eig)"],
              "stub": ["numpy.random.default_rng(None) -> seeded generator (ARPACK start vector)"]}
ASSUMPTIONS = ["matrix class fixed per instance (is_hermitian is detected once by design)",
               "eigenvector normalisation is judged only when the bilinear form q^T B q of the unit vector is not degenerate (>1e-6)",
               "'closest to sigma' is compared only when the k-th and (k+1)-th distances differ by more than 1e-6 relative",
               "sensitivity values are not judged here (C01); adjoint cycles only create and refresh cached per-mode solvers"]
NOT_EXERCISED = ["buckling / cayley modes of eigsh", "Pardiso / CHOLMOD shift-invert solvers (not installed)"]

pym = None
SORTS = ["default", "descending", "abs"]


def sort_fn(name):
    if name == "descending":
        return lambda W, Q: np.argsort(-np.real(W))
    if name == "abs":
        return lambda W, Q: np.argsort(np.abs(W))
    return None


def setup():
    global pym
    seams.install()
    pym = seams.import_pymoto()


def gen(rng, idx, tier):
    storage = str(rng.choice(["dense", "dense", "sparse", "fe"]))
    gen_ = bool(rng.random() < 0.5) or storage == "fe"
    if storage == "dense":
        cls = str(rng.choice(["spd", "sym", "hpd", "herm", "general", "generalc", "blocks2"]))
        n = int(rng.integers(2, 20 if tier == "thorough" else 9))
    elif storage == "sparse":
        cls = str(rng.choice(["spd", "sym", "spd", "general", "herm", "hpd"]))
        n = int(rng.integers(8, 60 if tier == "thorough" else 25))
    else:
        cls, n = "fe", 0
    nobj = 2 if rng.random() < 0.15 else 1
    ops = []
    for _ in range(int(rng.integers(2, 20 if tier == "thorough" else 11))):
        o = int(rng.integers(0, nobj))
        r = rng.random()
        if r < 0.3:
            ops.append(dict(op="setA", o=o, seed=int(rng.integers(1 << 30))))
        elif r < 0.8:
            ops.append(dict(op="resp", o=o))
        else:
            ops.append(dict(op="adj", o=o, seed=int(rng.integers(1 << 30)), dW=bool(rng.random() < 0.7), dQ=bool(rng.random() < 0.6)))
    if not any(o["op"] == "resp" for o in ops):
        ops.append(dict(op="resp", o=0))
    return dict(storage=storage, cls=cls, n=n, gen=gen_, nmodes=int(rng.integers(1, 5)),
                sigma=str(rng.choice(["none", "none", "zero", "inside", "below"])), sort=str(rng.choice(["default", "default"] + SORTS)),
                flag=bool(rng.random() < 0.3), fe=dict(nx=int(rng.integers(4, 6)), ny=int(rng.integers(3, 5)), bc=str(rng.choice(["left", "bottom"]))),
                nobj=nobj, a0=int(rng.integers(1 << 30)), bskew=bool(rng.random() < 0.25), ops=ops,
                layout=str(rng.choice(["C", "C", "F", "T"])))


def enumerated_count(tier):
    return 1


def enumerated_case(i, tier):
    """ the literal history of known finding C11-K1 (found by the thorough tier, VERIF_SEED=11, run 3662): n=55 > ncv=20, the 2nd and 3rd
    closest eigenvalues are +0.69797 / -0.69841; the 4th response() -- same matrix as the 2nd and 3rd, another ARPACK start vector --
    returns the wrong one """
    return {"a0": 468322143, "bskew": True, "cls": "sym", "fe": {"bc": "bottom", "nx": 5, "ny": 4}, "flag": False, "gen": True, "n": 55,
            "nmodes": 2, "nobj": 1, "sigma": "none", "sort": "default", "storage": "sparse",
            "ops": [{"o": 1, "op": "resp"}, {"o": 1, "op": "setA", "seed": 537077313}, {"o": 0, "op": "resp"}, {"o": 0, "op": "resp"},
                    {"o": 1, "op": "resp"}]}


def simplify(case):
    import json
    from sim.core import jdump
    if case.get("nobj", 1) > 1:
        c = json.loads(jdump(case))
        c["nobj"] = 1
        yield c
    for key, val in (("sort", "default"), ("flag", False), ("sigma", "none"), ("gen", False), ("nmodes", 1)):
        if case[key] != val and not (key == "gen" and case["storage"] == "fe"):
            c = json.loads(jdump(case))
            c[key] = val
            yield c
    if case["n"] > 3 and case["storage"] != "fe":
        c = json.loads(jdump(case))
        c["n"] -= 1
        yield c


_FE = {}


def fe_pencil(fe):
    key = (fe["nx"], fe["ny"], fe["bc"])
    if key not in _FE:
        dom = pym.DomainDefinition(fe["nx"], fe["ny"])
        nodes = dom.nodes[0, ...].flatten() if fe["bc"] == "left" else dom.nodes[:, 0, ...].flatten()
        bc = np.sort(np.concatenate([nodes * 2, nodes * 2 + 1]))
        sx, sK, sM = pym.Signal("x"), pym.Signal("K"), pym.Signal("M")
        mK = pym.AssembleStiffness(sx, sK, dom, bc=bc)
        mM = pym.AssembleMass(sx, sM, dom, bc=bc, ndof=2, material_property=1.0)      # bcdiagval=0: B singular on constrained dofs
        _FE[key] = (dom, bc, sx, sK, sM, mK, mM)
    return _FE[key]


class Inst:
    def __init__(self, case, oi):
        self.case = case
        S = pym.Signal
        self.sA, self.sB, self.sW, self.sQ = S("A"), S("B"), S("lam"), S("Q")
        self.sparse = case["storage"] in ("sparse", "fe")
        cls = case["cls"]
        self.herm = cls in ("spd", "sym", "hpd", "herm", "fe", "blocks2")
        if case.get("bskew") and case["gen"] and case["storage"] == "dense" and cls != "blocks2":
            self.herm = False
        self.cplx = cls in ("hpd", "herm", "generalc")
        kw = {}
        fn = sort_fn(case["sort"])
        if fn is not None:
            kw["sorting_func"] = fn
        if case["flag"]:
            kw["hermitian"] = self.herm
        self.a_seed = case["a0"] + oi
        self.nset = 0
        self.nresp = 0
        self.sigma = None
        if self.sparse:
            if case["nmodes"] == 4 and (case["storage"] == "fe" or case["n"] >= 12):
                self.default_nmodes = True          # leave nmodes to its default (6)
            else:
                kw["nmodes"] = case["nmodes"]
            self.sigma_kind = case["sigma"]
        self.kw = kw
        self.mod = None
        self.set_A()

    def set_A(self):
        c = self.case
        self.nset += 1
        if c["storage"] == "fe":
            dom, bc, sx, sK, sM, mK, mM = fe_pencil(c["fe"])
            sx.state = sub_rng(0x110, self.a_seed).uniform(0.2, 1.0, dom.nel)
            mK.response()
            mM.response()
            self.A, self.B = sK.state.copy(), sM.state.copy()
            self.bc = bc
        else:
            sp = "csc" if self.sparse else None
            n = c["n"]
            mcls = {"generalc": "general"}.get(c["cls"], c["cls"])
            self.A = G.make_matrix(dict(n=n, cls=mcls, cplx=self.cplx, sparse=sp, seed=self.a_seed, pattern="full" if not self.sparse else "banded"))
            self.B = None
            if c["gen"] and c.get("bskew") and not self.sparse and c["cls"] != "blocks2":
                # B positive definite but NOT symmetric (SPD + skew part): the pencil is general even for symmetric A
                Bs = G.make_matrix(dict(n=n, cls="spd", cplx=False, sparse=None, seed=self.a_seed + 3, pattern="full"))
                K = sub_rng(0x112, self.a_seed).uniform(-1, 1, (n, n))
                self.B = Bs + 0.4 * (K - K.T)
            elif c["gen"] and c["cls"] == "blocks2":
                self.B = np.eye(n) * float(1.0 + (self.a_seed % 3))      # equal lumped masses keep the structure
            elif c["gen"]:
                self.B = G.make_matrix(dict(n=n, cls="hpd" if self.cplx else "spd", cplx=self.cplx, sparse=sp, seed=self.a_seed + 3,
                                            pattern="banded"))
            self.bc = None
        lay = c.get("layout", "C")
        if not self.sparse and lay != "C":
            # the caller's arrays may be Fortran-ordered (e.g. from scipy.io.loadmat) or transposed views: LAPACK works on those in place
            # when allowed to overwrite its arguments
            conv = (lambda M: np.asfortranarray(M)) if lay == "F" else (lambda M: np.ascontiguousarray(M.T).T)
            self.A = conv(self.A)
            if isinstance(self.B, np.ndarray):
                self.B = conv(self.B)
        # the oracle works on private copies; the signals hold the originals
        self.A0 = self.A.copy()
        self.B0 = None if self.B is None else self.B.copy()
        self.sA.state = self.A
        if self.B is not None:
            self.sB.state = self.B

    def build(self):
        """ the module is created lazily so that sigma can be placed relative to the first pencil's spectrum """
        kw = dict(self.kw)
        if self.sparse:
            lam = self.ref_spectrum()
            lam = np.sort(np.real(lam[np.isfinite(lam)]))
            sk = self.sigma_kind
            if sk == "zero":
                kw["sigma"] = 0.0
            elif sk == "inside" and len(lam) >= 4:
                j = len(lam) // 2
                kw["sigma"] = float(0.5 * (lam[j - 1] + lam[j]))
                if abs(lam[j] - lam[j - 1]) < 1e-3 * max(1.0, abs(lam[j])):
                    kw["sigma"] = float(lam[j] + 0.37 * (lam[j] - lam[j - 1] + 1e-2))
            elif sk == "below":
                kw["sigma"] = float(lam[0] - 0.5 * (abs(lam[0]) + 1.0))
            self.sigma = kw.get("sigma", None)
        ins = [self.sA, self.sB] if self.B is not None else [self.sA]
        self.mod = pym.EigenSolve(ins, [self.sW, self.sQ], **kw)

    def ref_spectrum(self):
        Ad = G.todense(self.A0)
        Bd = None if self.B0 is None else G.todense(self.B0)
        if self.bc is not None:
            keep = np.setdiff1d(np.arange(Ad.shape[0]), self.bc)
            lam = sla.eigvalsh(Ad[np.ix_(keep, keep)], Bd[np.ix_(keep, keep)])
            return lam        # finite eigenvalues only (constrained dofs carry infinite ones: B is singular there)
        if self.herm:
            return sla.eigvalsh(Ad, Bd)
        return sla.eigvals(Ad, Bd)


def match_multiset(a, b):
    """ nearest-neighbour assignment distance between two complex multisets of equal length """
    a, b = list(np.asarray(a, dtype=complex)), list(np.asarray(b, dtype=complex))
    worst = 0.0
    for x in a:
        j = int(np.argmin([abs(x - y) for y in b]))
        worst = max(worst, abs(x - b[j]))
        b.pop(j)
    return worst


def miss_features(W, reff, sig, k, nfinite, scale):
    """ classify a wrong selection (for the known-findings matcher, see C11-K1): every returned value is a genuine eigenvalue, exactly one
    wanted eigenvalue is replaced by the next-closest one, which lies on the OTHER side of the shift at a distance that differs by less than
    1 %, and the Krylov space of ARPACK is smaller than the problem (ncv = max(2k+1, 20) < number of finite eigenvalues) """
    W = np.asarray(W)
    feats = []
    dist = np.abs(reff - sig)
    order = np.argsort(dist)
    genuine = all(np.min(np.abs(reff - w)) <= 1e-7 * scale for w in W)
    feats.append("returned_all_genuine" if genuine else "returned_not_genuine")
    feats.append("krylov_restricted" if max(2 * k + 1, 20) < nfinite else "krylov_full")
    if genuine and len(reff) > k:
        want = list(reff[order[:k]])
        extra = []
        for w in W:
            j = int(np.argmin([abs(w - x) for x in want])) if want else -1
            if j >= 0 and abs(w - want[j]) <= 1e-7 * scale:
                want.pop(j)
            else:
                extra.append(w)
        if len(want) == 1 and len(extra) == 1:
            dm, de = abs(want[0] - sig), abs(extra[0] - sig)
            nxt = reff[order[k]]
            # (the substitute is the next-closest value, or tied with it: complex-conjugate pairs are equally far)
            if de <= abs(nxt - sig) + 1e-7 * scale and np.real(want[0] - sig) * np.real(extra[0] - sig) < 0 and (de - dm) < 1e-2 * de:
                feats.append("one_near_tie_across_shift")
    return feats


def run(case):
    warnings.simplefilter("ignore")
    np.seterr(all="ignore")
    seams.reset_run([11, case["a0"]])
    res = dict(trace=[f"K:{case['storage']}:{case['cls']}:{'g' if case['gen'] else 's'}:{case['sigma']}:{case['sort']}"],
               nontrivial=False, steps=0, probes={}, faults={}, skipped={}, violations=[], margins={})
    P = res["probes"]

    def probe(k):
        P[k] = P.get(k, 0) + 1

    def skip(k):
        res["skipped"][k] = res["skipped"].get(k, 0) + 1

    def viol(clause, msg, at, feats=()):
        res["violations"].append(dict(cls=["C11", clause], msg=msg, at=at,
                                      features=[f"storage={case['storage']}", f"cls={case['cls']}", f"gen={case['gen']}"] + list(feats)))

    def margin(k, v):
        res["margins"][k] = max(res["margins"].get(k, 0.0), v)

    nobj = case.get("nobj", 1)
    insts = [Inst(case, oi) for oi in range(nobj)]
    if nobj == 2:
        probe("two_instances_interleaved")
    if case["sort"] != "default":
        probe("custom_sorting")
    detail = []
    for at, op in enumerate(case["ops"]):
        res["steps"] += 1
        I = insts[op.get("o", 0) % nobj]
        if op["op"] == "setA":
            I.a_seed = op["seed"]
            I.set_A()
            res["trace"].append("A")
            continue
        if op["op"] == "adj":
            if I.nresp == 0:
                res["trace"].append("adj-skip")
                continue
            try:
                rng = sub_rng(0x111, op["seed"])
                W, Q = I.sW.state, I.sQ.state
                dW = rng.uniform(-1, 1, np.shape(W)) if (op["dW"] or not op["dQ"]) else None
                dQ = None
                if op["dQ"]:
                    dQ = rng.uniform(-1, 1, np.shape(Q))
                    if np.iscomplexobj(Q):
                        dQ = dQ + 1j * rng.uniform(-1, 1, np.shape(Q))
                    if I.sparse:
                        probe("sparse_eigvec_seed")
                I.sW.sensitivity, I.sQ.sensitivity = dW, dQ
                I.mod.sensitivity()
                I.mod.reset()
                probe("adjoint_cycle_between_responses")
            except Exception as ex:  # noqa  (not judged here)
                skip(f"adjoint_cycle_raises:{type(ex).__name__}")
                try:
                    I.mod.reset()
                except Exception:  # noqa
                    pass
            res["trace"].append("adj")
            continue
        # ---- response
        try:
            if I.mod is None:
                I.build()
            a0 = seams.state["rng_none_calls"]
            I.mod.response()
        except Exception as ex:  # noqa
            viol("exception", f"response() #{I.nresp + 1} raised {type(ex).__name__}: {str(ex)[:200]}", at,
                 feats=[f"exc={type(ex).__name__}"])
            break
        if seams.state["rng_none_calls"] > a0:
            res["faults"]["arpack_start_vector_varied"] = res["faults"].get("arpack_start_vector_varied", 0) + 1
            res["nontrivial"] = True
        I.nresp += 1
        if I.nresp >= 2 and I.nset >= 2:
            res["nontrivial"] = True
        if I.nset >= 3 and I.sparse:
            probe("solver_reuse_3_matrices")
        W, Q = np.asarray(I.sW.state), np.asarray(I.sQ.state)
        Ad = G.todense(I.A0)
        n = Ad.shape[0]
        Bd = np.eye(n) if I.B0 is None else G.todense(I.B0)
        if case.get("layout", "C") != "C" and not I.sparse:
            probe("fortran_ordered_input")
        mut = [nm for nm, sg, ref in (("A", I.sA, I.A0), ("B", I.sB, I.B0)) if ref is not None and
               not (np.array_equal(G.todense(sg.state), G.todense(ref)))]
        if mut:
            viol("input-mutated", f"response() #{I.nresp}: the state of input signal(s) {mut} was modified by the module "
                 f"(the returned pairs belong to a matrix the caller no longer has)", at, feats=[f"layout={case.get('layout', 'C')}"])
            break
        k = W.size
        if I.cplx and I.herm:
            probe("complex_hermitian")
        if I.B is not None and not I.sparse and not np.allclose(Bd, Bd.conj().T):
            probe("nonsymmetric_positive_definite_B")
        exp_k = n if not I.sparse else (6 if getattr(I, "default_nmodes", False) else case["nmodes"])
        if getattr(I, "default_nmodes", False):
            probe("default_nmodes")
        if Q.ndim != 2 or Q.shape != (n, k) or k != exp_k:
            viol("shape", f"returned {k} values and Q of shape {Q.shape}; expected {exp_k} pairs of dimension {n}", at)
            break
        nA = np.linalg.norm(Ad, 2)
        bad = None
        for i in range(k):
            q, w = Q[:, i], W[i]
            nq = np.linalg.norm(q)
            if not np.all(np.isfinite(q)) or not np.isfinite(w) or nq == 0:
                bad = ("residual", f"pair {i} is not finite")
                break
            r = np.linalg.norm(Ad @ q - w * (Bd @ q)) / (max(nA, abs(w) * np.linalg.norm(Bd, 2)) * nq)
            margin("residual_over_tol", r / 1e-7)
            if r > 1e-7:
                bad = ("residual", f"pair {i}: |A q - lambda B q| = {r:.2e} |A||q| (lambda={w})")
                break
            if not np.iscomplexobj(q) and np.mean(q) == 0.0:
                probe("exact_zero_mean_eigenvector")
            qh = q / nq
            form = qh @ (Bd @ qh)
            if abs(form) > 1e-6:
                nerr = abs(q @ (Bd @ q) - 1.0)
                margin("normalisation_over_tol", nerr / 1e-8)
                if nerr > 1e-8:
                    bad = ("normalisation", f"pair {i}: q^T B q = {q @ (Bd @ q)} (bilinear form), expected 1")
                    break
            else:
                skip("normalisation_degenerate_bilinear_form")
            if not np.iscomplexobj(Ad) and not np.iscomplexobj(Bd) and I.herm:
                if np.iscomplexobj(q) and np.max(np.abs(np.imag(q))) > 0:
                    bad = ("real-vectors", f"pair {i}: complex eigenvector for a real symmetric problem")
                    break
                if np.mean(np.real(q)) < -1e-12:
                    bad = ("sign", f"pair {i}: mean entry {np.mean(np.real(q)):.3e} is negative")
                    break
        if bad:
            viol(bad[0], f"response() #{I.nresp}: " + bad[1], at)
            break
        # order
        fn = sort_fn(case["sort"]) or (lambda W_, Q_: np.argsort(W_))
        isort = fn(W, Q)
        if not np.allclose(W[isort], W, rtol=0, atol=1e-9 * max(1.0, float(np.max(np.abs(W))))):
            viol("order", f"response() #{I.nresp}: values {W.tolist()} are not ordered by the sorting function ({case['sort']})", at)
            break
        # spectrum
        ref = I.ref_spectrum()
        scale = max(1.0, float(np.max(np.abs(ref[np.isfinite(ref)]))))
        if not I.sparse:
            d = match_multiset(W, ref) / scale
            margin("spectrum_over_tol", d / 1e-7)
            probe("dense_full_spectrum_compared")
            if np.iscomplexobj(W) and not I.herm:
                probe("general_complex_spectrum")
            if d > 1e-7:
                viol("spectrum", f"response() #{I.nresp}: returned values differ from the reference spectrum (distance {d:.2e})", at)
                break
        else:
            sig = 0.0 if I.sigma is None else I.sigma
            reff = ref[np.isfinite(ref)]
            dist = np.abs(reff - sig)
            order = np.argsort(dist)
            if I.bc is not None:
                probe("singular_B_on_constrained_dofs")
            if I.sigma is not None and np.min(np.real(reff)) < sig < np.max(np.real(reff)):
                probe("sigma_inside_spectrum")
            if len(reff) > k and (dist[order[k]] - dist[order[k - 1]]) > 1e-6 * max(1.0, dist[order[k]]):
                want = reff[order[:k]]
                d = match_multiset(W, want) / scale
                margin("spectrum_over_tol", d / 1e-7)
                probe("closest_to_sigma_compared")
                if d > 1e-7:
                    viol("spectrum", f"response() #{I.nresp}: returned values {np.asarray(W).tolist()} are not the {k} eigenvalues "
                         f"closest to sigma={sig}: {want.tolist()} (distance {d:.2e})", at,
                         feats=[f"sigma={case['sigma']}"] + miss_features(W, reff, sig, k, len(reff), scale))
                    break
            else:
                skip("closest_to_sigma_gap_too_small")
        detail.append(float(np.sum(np.abs(W))))
        res["trace"].append(f"R{min(I.nresp, 3)}:{min(I.nset, 3)}")
    res["detail"] = repr(np.round(detail, 6).tolist())
    return res
