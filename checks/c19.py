"""C19 -- finite_difference is a faithful and non-destructive derivative check.

System under test: real pymoto.finite_difference (pymoto/routines.py) applied to harness modules with *exact* Jacobians,
alone or wired into small Networks.  The harness modules are deliberately dumb (native complex arithmetic); the oracle is
an independent forward-mode executor in *real coordinates* (every signal = [Re; Im]) that never touches pyMOTO's
backpropagation.  In ~40% of the runs one Jacobian block of one module's _sensitivity is scaled / sign-flipped / dropped
(a deliberately WRONG module): the tool must then hand at least one non-matching (analytical, numerical) pair to test_fn.

Conventions derived from the code and from the docstring of pymoto/modules/complex.py
  * a seed w on an output y defines the real response g = Re sum(w*y); the sensitivity of a real input x is dg/dx,
    of a complex input z = a+ib it is s = dg/da - i dg/db;
  * real pass   : test_fn(x0, dx, Re s_k, Re sum(w*(y(x+h e_k)-y(x))/h))                    -> dg/da_k + O(h)
  * imag pass   : test_fn(x0, dx, Im s_k, Im sum(w*(y(x+i h e_k)-y(x))/(i h)))              -> -dg/db_k + O(h)
    with h = dx*|x0| if relative_dx (and x0 != 0) else dx;  `dx` (not h) is what the callback receives;
  * call order  : for every input in `inps` order (fromsig as given, else blk.sig_in), for every entry in nditer order
    (memory order = C order for C-contiguous arrays, column-major for Fortran-ordered ones; zero entries skipped when
    keep_zero_structure), [one tuple per output in `outps` order (real pass)] then, for complex inputs,
    [one tuple per output (imaginary pass)].
The fast path of the oracle follows that order; the verdict does not: if the ordered comparison fails, expected and
reported tuples are compared as multisets (bipartite matching on x0 bits, analytical and numerical value).
"""
import contextlib
import copy
import io
import json
import re
import warnings

import numpy as np
import scipy.sparse as sps
from scipy.sparse.csgraph import maximum_bipartite_matching

from sim import seams
from sim.core import sub_rng, jdump

PROP = "C19"
LEVEL = "exploration"
TIERS = {"quick": dict(runs=10000, chunk=100), "thorough": dict(budget_s=480, max_runs=1_000_000, chunk=200)}
RUN_WALL_CAP = 60
RULE = ("one case = 1-3 source signals (real/complex; 1-D, 2-D C- or Fortran-ordered, 0-d arrays, Python/NumPy scalars, basic or "
        "index-array SignalSlices of a larger base; seeded exact zeros) + 1-4 generated harness modules with exact Jacobians "
        "{multi-in/multi-out (conjugate-)linear maps with complex or real blocks and optional Re(), elementwise tanh / z^2 / "
        "|z|^2, elementwise products incl. scalar*vector and x*x, vector -> scipy.sparse matrix (csr/csc/coo)} used alone "
        "or as a Network with explicitly permuted sig_in/sig_out; fromsig/tosig None, a bare Signal or a list (sources and "
        "intermediate signals: sub-network selection); dx in {1e-6,1e-7,1e-8}, relative_dx, tol, random / ones / use_df "
        "seeds, keep_zero_structure, verbose; in ~40% of the cases one Jacobian block of one module's _sensitivity is "
        "scaled, sign-flipped or dropped; optional stale sensitivities before the call.  distinct = distinct abstract traces "
        "(wrapper, module kinds and dtype classes, selection class, knobs, fault class, tuple-count class, outcome); "
        "non-trivial = at least one (analytical, numerical) pair was judged against the exact Jacobian")
PROBES = ["wrong_module_run", "wrong_block_off_path", "complex_input", "subnetwork_selection", "zero_entries_skipped",
          "zero_entries_perturbed", "python_scalar_input", "numpy_scalar_input", "zero_dim_input", "two_dim_input",
          "fortran_order_input", "basic_slice_input", "index_slice_input", "sparse_output", "complex_sparse_output",
          "python_scalar_output", "multi_output", "intermediate_fromsig", "output_outside_subnetwork", "same_signal_twice",
          "relative_dx", "use_df", "ones_seed", "stale_sensitivity_preset", "bare_signal_argument", "order_differs_multiset_ok",
          "nonholomorphic_block", "real_to_complex", "complex_to_real", "nonlinear_map", "slice_base_sens_zeros",
          "printed_summary_checked", "negative_zero"]
FAULT_KINDS = ["wrong_block_scale", "wrong_block_flip", "wrong_block_drop"]
COMPONENTS = {"real": ["pymoto.finite_difference", "pymoto.Network", "pymoto.Module", "pymoto.Signal", "pymoto.core_objects.SignalSlice",
                       "numpy legacy global generator (seeded per call)", "scipy.sparse"],
              "stub": ["exact-Jacobian harness modules (C19Harness: native complex arithmetic, event log of response/"
                       "sensitivity/reset calls incl. the seeds received)", "stdout (captured)"]}
ASSUMPTIONS = ["a fromsig signal is never produced by a module at or after the first module that consumes a fromsig signal "
               "(the response pass of the selected sub-network would overwrite the perturbation: usage error, not judged)",
               "Python/NumPy *scalar* inputs are never exactly zero (the zero test of keep_zero_structure only applies to arrays)",
               "a base signal that is sliced is used through exactly one slice and never directly; index arrays have no repeats",
               "sparse matrices occur as outputs only (never perturbed, never consumed); input dtypes are float64/complex128",
               "|x| in [0.3,1.2] for non-zero entries, Jacobian entries O(1): finite-difference noise ~ eps/dx",
               "harness modules return real sensitivities for real inputs and complex128 for complex inputs",
               "tosig=None together with an intermediate fromsig is replaced by the explicit list of all other outputs "
               "(the seed of a signal that is input and output at once is not observable by any module)"]
NOT_EXERCISED = ["nested Networks as blk (C02 covers nesting)", "outputs whose state is None", "DyadCarrier-valued sensitivities",
                 "integer / float32 inputs"]

pym = None
H = {}
LOG = []           # event log of the current run, written by the harness modules

EPS = np.finfo(float).eps
# Calibration on the unchanged tree (20 000 runs, all dx): largest numerical error in excess of the rigorous C*dx bound =
# 2.9e-4 of the noise allowance below (3.5 orders of magnitude of head room); largest analytical error = 8.7e-5 of its
# allowance; the C*dx bound itself (C = |w| * bound on the second derivative / 2) is attained up to 0.67 (z -> z^2).
KN = 2000.0        # noise allowance: KN * eps / h * |w| * (1 + max signal norm + first-derivative bound * (1 + |x0|))
TOL_AN = 1e-11     # allowance on the analytical value: TOL_AN * (1 + sum |w_i| |J_ik|)   (pure rounding)
BIG = 0.02         # a wrong block is "observable" when the exact discrepancy exceeds this


def setup():
    global pym
    seams.install()
    pym = seams.import_pymoto()
    if "C19Harness" not in H:
        _define_modules()


# ------------------------------------------------------------------------------------------------ harness modules
def _flat(x):
    return np.array(np.asarray(x).ravel())


def _native_forward(spec, xs):
    k = spec["kind"]
    if k == "lin":
        ys = []
        for o in range(len(spec["A"])):
            y = spec["b"][o].copy()
            for j, x in enumerate(xs):
                y = y + spec["A"][o][j] @ (np.conj(x) if spec["conj"][o][j] else x)
            if spec["re"][o]:
                y = np.array(np.real(y))
            ys.append(y)
        return ys
    if k == "ew":
        x = xs[0]
        if spec["fn"] == "tanh":
            return [np.tanh(x)]
        if spec["fn"] == "sq":
            return [x * x]
        return [np.array(np.real(x * np.conj(x)))]
    if k == "prod":
        return [xs[0] * xs[1]]
    if k == "spmat":
        vals = spec["M"] @ xs[0]
        cls = dict(csr=sps.csr_matrix, csc=sps.csc_matrix, coo=sps.coo_matrix)[spec["fmt"]]
        m = spec["m"]
        return [cls((vals, (spec["rows"], spec["cols"])), shape=(m, m))]
    raise ValueError(k)


def _native_backward(spec, xs, ws):
    """ sensitivities s_j = dg/dRe(x_j) - i dg/dIm(x_j) in native complex arithmetic; lam scales single blocks (fault) """
    k = spec["kind"]
    lam = spec["lam"]
    if k == "lin":
        out = []
        for j, x in enumerate(xs):
            s = np.zeros(x.size, dtype=complex)
            for o, w in enumerate(ws):
                if w is None:
                    continue
                t = spec["A"][o][j].T @ w
                if spec["conj"][o][j]:
                    t = np.conj(t)
                s = s + lam.get((o, j), 1.0) * t
            out.append(s)
        return out
    w = ws[0]
    if k == "ew":
        x = xs[0]
        if spec["fn"] == "tanh":
            s = (1.0 - np.tanh(x) ** 2) * w
        elif spec["fn"] == "sq":
            s = 2.0 * x * w
        else:
            s = 2.0 * np.conj(x) * w
        return [lam.get((0, 0), 1.0) * np.asarray(s, dtype=complex)]
    if k == "prod":
        u, v = xs
        su = np.asarray(v * w, dtype=complex)
        sv = np.asarray(u * w, dtype=complex)
        if u.size == 1 and su.size > 1:
            su = np.array([su.sum()])
        if v.size == 1 and sv.size > 1:
            sv = np.array([sv.sum()])
        return [lam.get((0, 0), 1.0) * su, lam.get((0, 1), 1.0) * sv]
    if k == "spmat":
        m = spec["m"]
        W = np.asarray(w).reshape(m, m)
        return [lam.get((0, 0), 1.0) * np.asarray(spec["M"].T @ W[spec["rows"], spec["cols"]], dtype=complex)]
    raise ValueError(k)


def _shape_out(y, form):
    kind, shape = form
    if kind == "sp":
        return y
    if kind == "arr":
        return y.reshape(shape)
    if kind == "arr2":
        return np.ascontiguousarray(y.reshape(shape))
    if kind == "arr2f":
        return np.asfortranarray(y.reshape(shape))
    if kind == "py":
        return y[0].item()
    if kind == "0d":
        return np.array(y[0])
    raise ValueError(kind)


def _define_modules():
    Module = pym.Module

    class C19Harness(Module):
        """ exact-Jacobian module; logs every response / sensitivity (with the seeds received) / reset """
        def _prepare(self, spec=None, mid=0):
            self.spec, self.mid = spec, mid
            self.meta, self.xs = None, None

        def _response(self, *xs):
            LOG.append(("resp", self.mid))
            self.meta = [(isinstance(x, np.ndarray), np.shape(x), bool(np.iscomplexobj(x))) for x in xs]
            self.xs = [_flat(x) for x in xs]
            ys = _native_forward(self.spec, self.xs)
            return [_shape_out(y, f) for y, f in zip(ys, self.spec["forms"])]

        def _sensitivity(self, *ws):
            LOG.append(("sens", self.mid, [None if w is None else copy.deepcopy(w) for w in ws]))
            wf = [None if w is None else _flat(w) for w in ws]
            ss = _native_backward(self.spec, self.xs, wf)
            out = []
            for s, (isarr, shape, cplx) in zip(ss, self.meta):
                s = np.asarray(s, dtype=np.complex128) if cplx else np.array(np.real(s), dtype=float)
                if isarr:
                    out.append(s.reshape(shape))
                else:
                    out.append(s[0].item() if self.spec["ssens"] == "py" else s[0])
            return out

        def _reset(self):
            LOG.append(("reset", self.mid))

    H["C19Harness"] = C19Harness


# ------------------------------------------------------------------------------------------------ generation
SRC_FORMS = ["arr"] * 11 + ["arr2", "arr2", "arr2f", "py", "py", "py", "0d", "npy", "slb", "sli"]
SHAPES2 = [[2, 2], [2, 3], [1, 3], [3, 1], [3, 2]]


def _gen_src(rng):
    form = str(rng.choice(SRC_FORMS))
    if form in ("arr2", "arr2f"):
        shape = [int(v) for v in SHAPES2[int(rng.integers(len(SHAPES2)))]]
    elif form in ("py", "0d", "npy"):
        shape = []
    else:
        shape = [int(rng.integers(1, 5))]
    return dict(form=form, shape=shape, cplx=bool(rng.random() < 0.35), seed=int(rng.integers(1 << 30)),
                zfrac=float(rng.choice([0.0, 0.0, 0.3, 0.6])), negzero=bool(rng.random() < 0.2),
                extra=int(rng.integers(1, 4)), step=int(rng.choice([1, 1, 2])))


def _gen_op(rng):
    kind = str(rng.choice(["lin"] * 9 + ["ew"] * 4 + ["prod"] * 3 + ["spmat"] * 4))
    op = dict(kind=kind, seed=int(rng.integers(1 << 30)), ssens=str(rng.choice(["py", "np"])))
    if kind == "lin":
        nin = int(rng.choice([1, 1, 2, 2, 3]))
        nout = int(rng.choice([1, 1, 1, 2, 3]))
        op["ins"] = [int(rng.integers(0, 64)) for _ in range(nin)]
        op["outs"] = [dict(m=int(rng.integers(1, 5)), form=str(rng.choice(["arr"] * 6 + ["arr2", "arr2f", "py", "py", "0d"])),
                           re=bool(rng.random() < 0.15)) for _ in range(nout)]
        op["cplxA"] = bool(rng.random() < 0.35)
        op["conj"] = [bool(rng.random() < 0.2) for _ in range(4)]
    elif kind == "ew":
        op["ins"] = [int(rng.integers(0, 64))]
        op["fn"] = str(rng.choice(["tanh", "tanh", "sq", "abs2"]))
    elif kind == "prod":
        op["ins"] = [int(rng.integers(0, 64)), int(rng.integers(0, 64))]
    else:
        op["ins"] = [int(rng.integers(0, 64))]
        op["m"] = int(rng.integers(2, 4))
        op["nnz"] = int(rng.integers(1, 6))
        op["fmt"] = str(rng.choice(["csr", "csc", "coo"]))
        op["cplxM"] = bool(rng.random() < 0.3)
    return op


def gen(rng, idx, tier):
    srcs = [_gen_src(rng) for _ in range(int(rng.integers(1, 4)))]
    ops = [_gen_op(rng) for _ in range(int(rng.choice([1, 1, 2, 2, 3, 3, 4])))]
    wrap = "module" if rng.random() < 0.3 else "network"
    sel = dict(frm=None if rng.random() < 0.5 else [int(rng.integers(0, 64)) for _ in range(int(rng.integers(1, 3)))],
               to=None if rng.random() < 0.5 else [int(rng.integers(0, 64)) for _ in range(int(rng.integers(1, 3)))],
               bare=bool(rng.random() < 0.5))
    r = rng.random()
    seedmode = "random" if r < 0.6 else ("ones" if r < 0.75 else "use_df")
    fd = dict(dx=float(rng.choice([1e-6, 1e-7, 1e-8])), relative_dx=bool(rng.random() < 0.3),
              tol=float(rng.choice([1e-5, 1e-5, 1e-4, 1e-3])), seedmode=seedmode, dfseed=int(rng.integers(1 << 30)),
              kzs=None if rng.random() < 0.4 else bool(rng.random() < 0.5), verbose=bool(rng.random() < 0.5),
              npseed=int(rng.integers(1 << 31)))
    fault = None
    if rng.random() < 0.4:
        fk = str(rng.choice(["scale", "scale", "flip", "drop"]))
        lam = dict(scale=float(rng.choice([0.5, 2.0, 1.5, 3.0])), flip=-1.0, drop=0.0)[fk]
        fault = dict(op=int(rng.integers(0, 64)), o=int(rng.integers(0, 64)), j=int(rng.integers(0, 64)), kind=fk, lam=lam)
    return dict(srcs=srcs, ops=ops, wrap=wrap, sel=sel, perm=int(rng.integers(1 << 30)), fd=fd, fault=fault,
                stale=bool(rng.random() < 0.15))


def simplify(case):
    def clone():
        return json.loads(jdump(case))
    if case["wrap"] != "module" and len(case["ops"]) == 1:
        c = clone(); c["wrap"] = "module"; yield c
    if case["stale"]:
        c = clone(); c["stale"] = False; yield c
    if case["fault"] is not None:
        c = clone(); c["fault"] = None; yield c
    for key in ("frm", "to"):
        if case["sel"][key] is not None:
            c = clone(); c["sel"][key] = None; yield c
            if len(case["sel"][key]) > 1:
                c = clone(); c["sel"][key] = case["sel"][key][:1]; yield c
    if len(case["srcs"]) > 1:
        for i in range(len(case["srcs"])):
            c = clone(); del c["srcs"][i]; yield c
    for i, s in enumerate(case["srcs"]):
        for key, val in (("zfrac", 0.0), ("negzero", False), ("cplx", False), ("form", "arr")):
            if s[key] != val:
                c = clone(); c["srcs"][i][key] = val
                if key == "form":
                    c["srcs"][i]["shape"] = [max(1, int(np.prod(s["shape"], dtype=int)))]
                yield c
        if s["form"] in ("arr", "slb", "sli") and s["shape"][0] > 1:
            c = clone(); c["srcs"][i]["shape"] = [s["shape"][0] - 1]; yield c
    for key, val in (("relative_dx", False), ("verbose", False), ("seedmode", "ones"), ("kzs", None), ("tol", 1e-5), ("dx", 1e-6)):
        if case["fd"][key] != val:
            c = clone(); c["fd"][key] = val; yield c
    # references are indices modulo the pool size: small explicit indices let ddmin drop unrelated sources / modules
    for i, op in enumerate(case["ops"]):
        for k, v in enumerate(op["ins"]):
            for nv in range(0, 5):
                if v > 4 and nv != v:
                    c = clone(); c["ops"][i]["ins"][k] = nv; yield c
    for key in ("frm", "to"):
        for k, v in enumerate(case["sel"][key] or []):
            for nv in range(0, 5):
                if v > 4 and nv != v:
                    c = clone(); c["sel"][key][k] = nv; yield c
    if case["fault"] is not None:
        for key in ("op", "o", "j"):
            if case["fault"][key] > 3:
                for nv in range(0, 4):
                    c = clone(); c["fault"][key] = nv; yield c
    for i, op in enumerate(case["ops"]):
        if op["kind"] == "lin":
            if len(op["ins"]) > 1:
                c = clone(); c["ops"][i]["ins"] = op["ins"][:-1]; yield c
            if len(op["outs"]) > 1:
                c = clone(); c["ops"][i]["outs"] = op["outs"][:-1]; yield c
            if op["cplxA"]:
                c = clone(); c["ops"][i]["cplxA"] = False; yield c
            if any(op["conj"]):
                c = clone(); c["ops"][i]["conj"] = [False] * 4; yield c
            for k, o in enumerate(op["outs"]):
                if o["form"] != "arr" or o["re"] or o["m"] > 1:
                    c = clone(); c["ops"][i]["outs"][k] = dict(m=max(1, o["m"] - 1) if o["form"] == "arr" and not o["re"] else o["m"],
                                                                form="arr", re=False); yield c
        if op["kind"] == "spmat" and op["cplxM"]:
            c = clone(); c["ops"][i]["cplxM"] = False; yield c


# ------------------------------------------------------------------------------------------------ model (real coordinates)
def E(v):
    v = np.asarray(v, dtype=complex)
    return np.concatenate([v.real, v.imag])


def Rmat(A):
    A = np.asarray(A, dtype=complex)
    return np.block([[A.real, -A.imag], [A.imag, A.real]])


def _bcast(nfrom, nto):
    return np.ones((nto, 1)) if (nfrom == 1 and nto > 1) else np.eye(nto)


def model_eval(spec, xin):
    """ -> (outputs as complex flat vectors, J[o][j] real (2m x 2n)); formulas written in [Re; Im] coordinates """
    k = spec["kind"]
    if k == "lin":
        ys, J = [], []
        for o in range(len(spec["A"])):
            m = spec["A"][o][0].shape[0]
            acc = np.concatenate([spec["b"][o], np.zeros(m)])
            row = []
            for j, x in enumerate(xin):
                n = x.size
                Jr = Rmat(spec["A"][o][j])
                if spec["conj"][o][j]:
                    Jr[:, n:] *= -1.0
                if spec["re"][o]:
                    Jr[m:, :] = 0.0
                acc = acc + Jr @ E(x)
                row.append(Jr)
            ys.append(acc[:m] + 1j * acc[m:])
            J.append(row)
        return ys, J
    if k == "ew":
        a, b = xin[0].real, xin[0].imag
        n = a.size
        Z = np.zeros((n, n))
        if spec["fn"] == "tanh":
            t = np.tanh(a)
            return [t + 0j], [[np.block([[np.diag(1 - t * t), Z], [Z, Z]])]]
        if spec["fn"] == "sq":
            return [(a * a - b * b) + 1j * (2 * a * b)], [[np.block([[np.diag(2 * a), np.diag(-2 * b)], [np.diag(2 * b), np.diag(2 * a)]])]]
        return [(a * a + b * b) + 0j], [[np.block([[np.diag(2 * a), np.diag(2 * b)], [Z, Z]])]]
    if k == "prod":
        u, v = xin
        n = max(u.size, v.size)
        Eu, Ev = _bcast(u.size, n), _bcast(v.size, n)
        a, b = Eu @ u.real, Eu @ u.imag
        c, d = Ev @ v.real, Ev @ v.imag
        y = (a * c - b * d) + 1j * (a * d + b * c)
        Ju = np.block([[np.diag(c), -np.diag(d)], [np.diag(d), np.diag(c)]]) @ np.block([[Eu, np.zeros_like(Eu)], [np.zeros_like(Eu), Eu]])
        Jv = np.block([[np.diag(a), -np.diag(b)], [np.diag(b), np.diag(a)]]) @ np.block([[Ev, np.zeros_like(Ev)], [np.zeros_like(Ev), Ev]])
        return [y], [[Ju, Jv]]
    if k == "spmat":
        m, n = spec["m"], xin[0].size
        P = np.zeros((m * m, n), dtype=complex)
        for q in range(len(spec["rows"])):
            P[spec["rows"][q] * m + spec["cols"][q], :] += spec["M"][q, :]
        Jr = Rmat(P)
        yr = Jr @ E(xin[0])
        return [yr[:m * m] + 1j * yr[m * m:]], [[Jr]]
    raise ValueError(k)


def model_bounds(spec, xin, L1, L2, Mx):
    """ bounds on the 2-norm of first / second derivative of every output along each perturbation direction """
    k = spec["kind"]
    if k == "lin":
        o1, o2 = [], []
        for o in range(len(spec["A"])):
            nr = [np.linalg.norm(spec["A"][o][j], 2) for j in range(len(xin))]
            o1.append(sum(nr[j] * L1[j] for j in range(len(xin))))
            o2.append(sum(nr[j] * L2[j] for j in range(len(xin))))
        return o1, o2
    if k == "ew":
        if spec["fn"] == "tanh":
            return [L1[0]], [0.77 * L1[0] ** 2 + L2[0]]          # |tanh''| <= 4/(3 sqrt 3) < 0.77, |tanh'| <= 1
        return [2 * Mx[0] * L1[0]], [2 * L1[0] ** 2 + 2 * Mx[0] * L2[0]]
    if k == "prod":
        n = max(xin[0].size, xin[1].size)
        f0 = np.sqrt(n) if xin[0].size == 1 and n > 1 else 1.0
        f1 = np.sqrt(n) if xin[1].size == 1 and n > 1 else 1.0
        a1, a2, b1, b2 = f0 * L1[0], f0 * L2[0], f1 * L1[1], f1 * L2[1]
        return [Mx[1] * a1 + Mx[0] * b1], [Mx[1] * a2 + 2 * a1 * b1 + Mx[0] * b2]
    if k == "spmat":
        m, n = spec["m"], xin[0].size
        nr = np.linalg.norm(spec["M"], "fro") * np.sqrt(max(1, len(spec["rows"])))
        return [nr * L1[0]], [nr * L2[0]]
    raise ValueError(k)


# ------------------------------------------------------------------------------------------------ construction
def build_source(sd, i):
    """ -> dict(sig, base, form, shape, n, cplx, val (complex flat, logical C order), order (entry order of nditer)) """
    rng = sub_rng(0x1901, sd["seed"])
    form, cplx = sd["form"], sd["cplx"]
    shape = tuple(int(v) for v in sd["shape"])
    n = int(np.prod(shape, dtype=int)) if shape else 1
    v = rng.uniform(0.3, 1.2, n) * rng.choice([-1.0, 1.0], n)
    if cplx:
        v = v + 1j * rng.uniform(0.3, 1.2, n) * rng.choice([-1.0, 1.0], n)
    zmask = rng.random(n) < sd["zfrac"]
    iterable = form not in ("py", "npy")
    if iterable and zmask.any():
        v[zmask] = (-0.0 if (sd["negzero"] and not cplx) else 0.0)
    Signal = pym.Signal
    base = None
    order = np.arange(n)
    if form == "arr":
        st = v.copy()
    elif form == "arr2":
        st = np.ascontiguousarray(v.reshape(shape))
    elif form == "arr2f":
        st = np.asfortranarray(v.reshape(shape))
        order = np.arange(n).reshape(shape).ravel(order="F") if st.flags.f_contiguous and not st.flags.c_contiguous else order
    elif form == "py":
        st = v[0].item()
    elif form == "npy":
        st = v[0]
    elif form == "0d":
        st = np.array(v[0])
    else:
        step = int(sd["step"]) if form == "slb" else 1
        nb = step * n + int(sd["extra"])
        bv = rng.uniform(0.3, 1.2, nb) * rng.choice([-1.0, 1.0], nb)
        if cplx:
            bv = bv + 1j * rng.uniform(0.3, 1.2, nb)
        if form == "slb":
            start = int(rng.integers(0, nb - step * (n - 1)))
            sl = slice(start, start + step * (n - 1) + 1, step)
        else:
            sl = np.array(rng.permutation(nb)[:n])
        bv[sl] = v
        base = Signal(f"base{i}", bv)
        if int(sd["seed"]) % 2 == 0:      # the same entries through a slice of a slice (seeded change C19-7)
            sig = base[start:][slice(0, step * (n - 1) + 1, step)] if form == "slb" else base[0:nb][sl]
        else:
            sig = base[sl]
        return dict(sig=sig, base=base, form=form, shape=shape, n=n, cplx=cplx, val=v.astype(complex), order=order,
                    sparse=False, src=True, producer=None, consumers=[], name=f"x{i}")
    sig = Signal(f"x{i}", st)
    return dict(sig=sig, base=None, form=form, shape=shape, n=n, cplx=cplx, val=v.astype(complex), order=order,
                sparse=False, src=True, producer=None, consumers=[], name=f"x{i}")


def _out_form(form, m):
    if form in ("py", "0d"):
        return (form, ()), 1
    if form in ("arr2", "arr2f"):
        return (form, {4: (2, 2), 6: (2, 3)}.get(m, (1, m) if form == "arr2" else (m, 1))), m
    return ("arr", (m,)), m


def _pick(pool, idx, ok):
    """ first signal at or cyclically after idx that satisfies ok(); None if there is none """
    L = len(pool)
    for d in range(L):
        s = pool[(idx + d) % L]
        if ok(s):
            return (idx + d) % L
    return None


def build_module(op, pool, mi):
    """ realises one op against the current signal pool -> (spec, input ids, output descriptors) or None (op not applicable) """
    rng = sub_rng(0x1902, op["seed"])
    kind = op["kind"]
    dense = lambda s: not s["sparse"]            # noqa: E731
    if kind == "lin":
        ins = []
        for i in op["ins"]:
            p = _pick(pool, i, dense)
            if p is None:
                return None
            ins.append(p)
        forms, A, b, conj, rre = [], [], [], [], []
        for o, od in enumerate(op["outs"]):
            form, m = _out_form(od["form"], int(od["m"]))
            forms.append(form)
            row, crow = [], []
            for j, p in enumerate(ins):
                a = rng.uniform(-1, 1, (m, pool[p]["n"]))
                if op["cplxA"]:
                    a = a + 1j * rng.uniform(-1, 1, (m, pool[p]["n"]))
                row.append(a)
                crow.append(bool(op["conj"][(o * 2 + j) % len(op["conj"])]) and pool[p]["cplx"])
            A.append(row)
            conj.append(crow)
            b.append(rng.uniform(-0.5, 0.5, m))
            rre.append(bool(od["re"]))
        spec = dict(kind="lin", A=A, b=b, conj=conj, re=rre, forms=forms)
        anyc = op["cplxA"] or any(pool[p]["cplx"] for p in ins)
        outs = [dict(form=f[0], shape=f[1], n=A[o][0].shape[0], cplx=bool(anyc and not rre[o]), sparse=False) for o, f in enumerate(forms)]
    elif kind == "ew":
        p = _pick(pool, op["ins"][0], dense)
        if p is None:
            return None
        ins = [p]
        fn = op["fn"]
        if fn == "tanh" and pool[p]["cplx"]:
            fn = "sq"
        shape = pool[p]["shape"] if pool[p]["form"] in ("arr", "arr2", "arr2f", "slb", "sli") else (1,)
        form = ("arr2" if len(shape) == 2 else "arr", tuple(shape))
        spec = dict(kind="ew", fn=fn, forms=[form])
        outs = [dict(form=form[0], shape=form[1], n=pool[p]["n"], cplx=bool(pool[p]["cplx"] and fn == "sq"), sparse=False)]
    elif kind == "prod":
        p = _pick(pool, op["ins"][0], dense)
        if p is None:
            return None
        n0 = pool[p]["n"]
        q = _pick(pool, op["ins"][1], lambda s: dense(s) and (s["n"] == n0 or s["n"] == 1 or n0 == 1))
        if q is None:
            q = p
        ins = [p, q]
        n = max(n0, pool[q]["n"])
        spec = dict(kind="prod", forms=[("arr", (n,))])
        outs = [dict(form="arr", shape=(n,), n=n, cplx=bool(pool[p]["cplx"] or pool[q]["cplx"]), sparse=False)]
    elif kind == "spmat":
        p = _pick(pool, op["ins"][0], dense)
        if p is None:
            return None
        ins = [p]
        m, nnz, n = int(op["m"]), int(op["nnz"]), pool[p]["n"]
        M = rng.uniform(-1, 1, (nnz, n))
        if op["cplxM"]:
            M = M + 1j * rng.uniform(-1, 1, (nnz, n))
        rows = np.array(rng.integers(0, m, nnz))
        cols = np.array(rng.integers(0, m, nnz))
        spec = dict(kind="spmat", M=M, rows=rows, cols=cols, m=m, fmt=op["fmt"], forms=[("sp", (m, m))])
        outs = [dict(form="sp", shape=(m, m), n=m * m, cplx=bool(op["cplxM"] or pool[p]["cplx"]), sparse=True)]
    else:
        raise ValueError(kind)
    spec["lam"] = {}
    spec["ssens"] = op.get("ssens", "py")
    return spec, ins, outs


def _state_bytes(x):
    """ bit-exact fingerprint of a state (value bits, dtype kind and shape; the Python type itself is not compared) """
    if sps.issparse(x):
        return ("sp", x.shape, np.asarray(x.toarray()).tobytes())
    a = np.asarray(x)
    kind = "c" if np.iscomplexobj(a) else "f"
    if isinstance(x, np.ndarray):
        return ("a", a.dtype.str, a.shape, np.ascontiguousarray(a).tobytes())
    return ("s", kind, np.asarray(a, dtype=complex if kind == "c" else float).tobytes())


def _as_float(v):
    try:
        if np.iscomplexobj(v):
            return None
        f = float(v)
        return f
    except Exception:  # noqa
        return None


def _x0c(v):
    try:
        return complex(np.asarray(v).astype(complex).ravel()[0]) if np.size(v) == 1 else None
    except Exception:  # noqa
        return None


# ------------------------------------------------------------------------------------------------ run
def run(case):
    warnings.simplefilter("ignore")
    res = dict(trace=[], nontrivial=False, steps=0, probes={}, faults={}, skipped={}, violations=[], margins={}, detail="")
    P, SK = res["probes"], res["skipped"]

    def probe(k, c=1):
        P[k] = P.get(k, 0) + c

    def skip(k, c=1):
        SK[k] = SK.get(k, 0) + c

    feats = []

    def viol(clause, msg, at=0, extra=()):
        res["violations"].append(dict(cls=["C19", clause], msg=msg, at=at, features=sorted(set(feats + list(extra)))))
        res["trace"].append("V:" + clause)

    # ---- build signals and modules
    del LOG[:]
    pool = [build_source(sd, i) for i, sd in enumerate(case["srcs"])]
    mods = []          # dict(spec, ins, outs (pool ids), obj)
    for op in case["ops"]:
        bm = build_module(op, pool, len(mods))
        if bm is None:
            skip("op_not_applicable")
            continue
        spec, ins, outs = bm
        out_ids = []
        for k, od in enumerate(outs):
            nm = f"m{len(mods)}o{k}"
            od.update(sig=pym.Signal(nm), base=None, val=None, order=np.arange(od["n"]), src=False, producer=len(mods), pos=k,
                      consumers=[], name=nm)
            if od["form"] == "arr2f" and len(od["shape"]) == 2 and od["shape"][0] > 1 and od["shape"][1] > 1:
                od["order"] = np.arange(od["n"]).reshape(od["shape"]).ravel(order="F")
            pool.append(od)
            out_ids.append(len(pool) - 1)
        for p in ins:
            pool[p]["consumers"].append(len(mods))
        obj = H["C19Harness"]([pool[p]["sig"] for p in ins], [pool[p]["sig"] for p in out_ids], spec=spec, mid=len(mods))
        mods.append(dict(spec=spec, ins=ins, outs=out_ids, obj=obj, kind=spec["kind"]))
        if case["wrap"] == "module":
            break
    if not mods:
        skip("no_module_built")
        res["trace"].append("EMPTY")
        return res
    wrap = case["wrap"]
    feats.append("wrap:" + wrap)

    # fault: one Jacobian block of one module's _sensitivity is wrong
    fault = case.get("fault")
    fkey = None
    if fault is not None:
        fm = fault["op"] % len(mods)
        fo = fault["o"] % len(mods[fm]["outs"])
        fj = fault["j"] % len(mods[fm]["ins"])
        mods[fm]["spec"]["lam"][(fo, fj)] = float(fault["lam"])
        fkey = (fm, fo, fj)
        feats.append("fault:" + fault["kind"])
    else:
        feats.append("no-fault")

    # ---- model forward pass at the unperturbed point
    for md in mods:
        ys, J = model_eval(md["spec"], [pool[p]["val"] for p in md["ins"]])
        md["J"] = J
        for o, p in enumerate(md["outs"]):
            pool[p]["val"] = np.asarray(ys[o], dtype=complex)
    used = [i for i, s in enumerate(pool) if s["src"] and s["consumers"]] + [i for i, s in enumerate(pool) if not s["src"]]

    sink = io.StringIO()
    try:
        with contextlib.redirect_stdout(sink):
            if wrap == "network":
                blk = pym.Network([md["obj"] for md in mods])
            else:
                blk = mods[0]["obj"]
            blk.response()
    except Exception as ex:  # noqa  (construction / plain response of harness modules: not this property)
        raise RuntimeError(f"harness: building or first response failed: {type(ex).__name__}: {ex}")
    # harness sanity: module responses agree with the model (otherwise the harness itself is broken)
    for i in used:
        s = pool[i]
        if s["src"]:
            continue
        st = s["sig"].state
        got = np.asarray(st.toarray() if sps.issparse(st) else st).ravel()
        if got.shape != s["val"].shape or not np.allclose(got, s["val"], rtol=1e-12, atol=1e-12) or \
                bool(np.iscomplexobj(st)) != s["cplx"]:
            raise RuntimeError(f"harness: response of {s['name']} disagrees with the model")

    # ---- order seam and selection
    prng = sub_rng(0x1903, case["perm"])
    all_out = [p for md in mods for p in md["outs"]]
    if wrap == "network":
        src_in = [i for i, s in enumerate(pool) if s["src"] and s["consumers"]]
        want = {id(pool[i]["sig"]) for i in src_in}
        if {id(s) for s in blk.sig_in} != want or {id(s) for s in blk.sig_out} != {id(pool[p]["sig"]) for p in all_out}:
            probe("network_sig_sets_differ")
        src_in = [src_in[k] for k in prng.permutation(len(src_in))]
        out_perm = [all_out[k] for k in prng.permutation(len(all_out))]
        blk.sig_in = [pool[i]["sig"] for i in src_in]
        blk.sig_out = [pool[p]["sig"] for p in out_perm]
        from_cand = [i for i, s in enumerate(pool) if s["consumers"] and not s["sparse"]]
        to_cand = list(all_out)
    else:
        src_in = list(mods[0]["ins"])                     # may name the same signal twice (x*x)
        out_perm = list(mods[0]["outs"])
        from_cand = list(dict.fromkeys(mods[0]["ins"]))
        to_cand = list(all_out)

    def dedupe(seq):
        return list(dict.fromkeys(seq))

    sel = case["sel"]
    F = None if sel["frm"] is None else dedupe([from_cand[k % len(from_cand)] for k in sel["frm"]])
    O = None if sel["to"] is None else dedupe([to_cand[k % len(to_cand)] for k in sel["to"]])
    if wrap == "network" and F is not None:
        while F:
            i_first = min(min(pool[f]["consumers"]) for f in F)
            bad = [f for f in F if pool[f]["producer"] is not None and pool[f]["producer"] >= i_first]
            if not bad:
                break
            F = [f for f in F if f not in bad]
            skip("fromsig_overwritten_by_subnetwork_removed")
        if not F:
            F = None
    if F is not None and O is not None:
        O = [o for o in O if o not in F] or None
    if F is not None and O is None and any(not pool[f]["src"] for f in F):
        O = [o for o in out_perm if o not in F] or None
        if O is None:
            F = None
    inps = list(src_in) if F is None else list(F)
    outps = list(out_perm) if O is None else list(O)
    if F is not None or O is not None:
        feats.append("selection")
    if wrap == "network":
        i_first = min(min(pool[f]["consumers"]) for f in inps)
        i_last = max(pool[o]["producer"] for o in outps)
        if i_first > 0 or i_last < len(mods) - 1:
            probe("subnetwork_selection")
            feats.append("subnetwork")
        if any(pool[o]["producer"] < i_first for o in outps):
            probe("output_outside_subnetwork")
            feats.append("tosig-outside-subnetwork")
    if any(not pool[f]["src"] for f in inps):
        probe("intermediate_fromsig")
    if len(set(src_in)) < len(src_in) or any(len(md["ins"]) != len(set(md["ins"])) for md in mods):
        probe("same_signal_twice")

    def arg(ids):
        if ids is None:
            return None
        sigs = [pool[i]["sig"] for i in ids]
        if len(sigs) == 1 and sel.get("bare"):
            probe("bare_signal_argument")
            return sigs[0]
        return sigs

    # ---- knobs
    fdk = case["fd"]
    dx = float(fdk["dx"])
    kzs = True if fdk["kzs"] is None else bool(fdk["kzs"])
    kw = dict(dx=dx, relative_dx=bool(fdk["relative_dx"]), tol=float(fdk["tol"]), verbose=bool(fdk["verbose"]))
    if fdk["kzs"] is not None:
        kw["keep_zero_structure"] = kzs
    seedmode = fdk["seedmode"]
    use_df = None
    if seedmode == "ones":
        kw["random"] = False
        probe("ones_seed")
    elif seedmode == "use_df":
        drng = sub_rng(0x1904, fdk["dfseed"])
        use_df = []
        for o in outps:
            s = pool[o]
            shp = s["shape"] if s["form"] not in ("py", "0d") else ()
            w = drng.uniform(-1, 1, shp)
            if s["cplx"]:
                w = w + 1j * drng.uniform(-1, 1, shp)
            use_df.append(np.asarray(w) if shp != () else np.asarray(w).item())
        kw["use_df"] = use_df
        probe("use_df")
    if kw["relative_dx"]:
        probe("relative_dx")

    # ---- stale sensitivities (only where the whole block is reset by the tool: no selection)
    if case.get("stale") and F is None and O is None:
        srng = sub_rng(0x1905, case["perm"])
        for i in used:
            s = pool[i]
            if s["sparse"] or s["form"] in ("slb", "sli") or srng.random() < 0.4:
                continue
            st = s["sig"].state
            g = srng.uniform(1, 2, np.shape(st))
            if s["cplx"]:
                g = g + 1j * srng.uniform(1, 2, np.shape(st))
            s["sig"].sensitivity = np.asarray(g) if isinstance(st, np.ndarray) else np.asarray(g).item()
            probe("stale_sensitivity_preset")

    # ---- snapshot of every input-like state
    watch = dedupe([i for i, s in enumerate(pool) if s["src"]] + list(inps))
    x0vals = {f: np.array(np.asarray(pool[f]["sig"].state).ravel()) for f in inps}    # actual bits (logical C order)
    before = {}
    for i in watch:
        s = pool[i]
        before[i] = _state_bytes(s["base"].state if s["base"] is not None else s["sig"].state)

    # ---- input classes (probes / features)
    for f in inps:
        s = pool[f]
        form = s["form"]
        feats.append("input:" + {"slb": "basic-slice", "sli": "index-slice", "py": "py-scalar", "npy": "np-scalar"}.get(form, form)
                     + ("-complex" if s["cplx"] else ""))
        if s["cplx"]:
            probe("complex_input")
        probe({"py": "python_scalar_input", "npy": "numpy_scalar_input", "0d": "zero_dim_input", "arr2": "two_dim_input",
               "arr2f": "fortran_order_input", "slb": "basic_slice_input", "sli": "index_slice_input"}.get(form, "_arr"))
        if form in ("py", "npy") and s["cplx"]:
            cons = [mods[c]["spec"]["ssens"] for c in s["consumers"]]
            feats.append("scalar-sens:" + "+".join(sorted(set(cons))))
            if "py" in cons:
                feats.append("python-complex-sensitivity-of-scalar-input")
    P.pop("_arr", None)
    for o in outps:
        s = pool[o]
        if s["sparse"]:
            probe("sparse_output")
            if s["cplx"]:
                probe("complex_sparse_output")
        if s["form"] == "py":
            probe("python_scalar_output")
    if len(outps) > 1:
        probe("multi_output")
    for md in mods:
        sp = md["spec"]
        if sp["kind"] == "lin":
            if any(any(r) for r in sp["conj"]):
                probe("nonholomorphic_block")
            for o, p in enumerate(md["outs"]):
                if pool[p]["cplx"] and not any(pool[q]["cplx"] for q in md["ins"]):
                    probe("real_to_complex")
                if sp["re"][o] and not pool[p]["cplx"] and any(pool[q]["cplx"] for q in md["ins"]):
                    probe("complex_to_real")
        elif sp["kind"] == "ew":
            probe("nonlinear_map")
            if sp["fn"] == "abs2" and pool[md["ins"][0]]["cplx"]:
                probe("nonholomorphic_block")
                probe("complex_to_real")
        elif sp["kind"] == "prod" and (md["ins"][0] == md["ins"][1] or any(not pool[q]["src"] for q in md["ins"])):
            probe("nonlinear_map")

    # ---- the call
    got = []

    def test_fn(x0, dx_, an, fd):
        got.append((x0, dx_, an, fd))

    del LOG[:]
    sink = io.StringIO()
    err = None
    np.random.seed(int(fdk["npseed"]) & 0x7FFFFFFF)
    try:
        with contextlib.redirect_stdout(sink):
            pym.finite_difference(blk, arg(F), arg(O), test_fn=test_fn, **kw)
    except Exception as ex:  # noqa
        err = ex
    log = list(LOG)
    text = sink.getvalue()
    res["steps"] = len(got)

    mk = "+".join(f"{md['kind']}{'c' if any(pool[p]['cplx'] for p in md['ins']) else 'r'}"
                  f"{'c' if any(pool[p]['cplx'] for p in md['outs']) else 'r'}{len(md['ins'])}{len(md['outs'])}" for md in mods)
    res["trace"].append(f"W:{wrap}:{mk}")
    res["trace"].append("I:" + ",".join(sorted(pool[f]["form"] + ("c" if pool[f]["cplx"] else "r") for f in inps)))
    res["trace"].append(f"S:{'N' if F is None else ('mid' if any(not pool[f]['src'] for f in F) else 'src')}:"
                        f"{'N' if O is None else len(O)}:{'sp' if any(pool[o]['sparse'] for o in outps) else 'd'}")
    res["trace"].append(f"K:{dx:g}:{int(kw['relative_dx'])}:{seedmode}:{fdk['kzs']}:{int(kw['verbose'])}:{'stale' if case.get('stale') else '-'}")

    if err is not None:
        viol("exception", f"finite_difference raised {type(err).__name__}: {str(err)[:160]}", 0, ["exc:" + type(err).__name__])
        return res

    # ---- seeds actually used, from the event log of the harness modules
    # blk.reset() = one reset event per module of the (sub-)network (M events); every analytical pass is
    # [sens events, producer of the seeded output first] followed by one such burst; an initial burst may precede them.
    W = [None] * len(outps)
    M = len({ev[1] for ev in log if ev[0] == "reset"})
    toks, run_len, parsed = [], 0, True
    for ev in [ev for ev in log if ev[0] != "resp"] + [("end",)]:
        if ev[0] == "reset":
            run_len += 1
            continue
        if run_len:
            if M == 0 or run_len % M:
                parsed = False
            toks += ["B"] * (run_len // max(M, 1))
            run_len = 0
        if ev[0] == "sens":
            toks.append(ev)
    nb = sum(1 for t in toks if t == "B")
    passes = []
    if len(outps) == 1 and nb <= 1:
        passes = [[t for t in toks if t != "B"]]          # a single pass needs no separators
        parsed = "single"
    elif parsed and nb == len(outps) + 1 and toks and toks[0] == "B":
        toks = toks[1:]                                   # the initial reset
    elif parsed and nb == len(outps):
        pass
    else:
        parsed = False
    if parsed is True:
        cur = []
        for t in toks:
            if t == "B":
                passes.append(cur)
                cur = []
            else:
                cur.append(t)
        if cur or len(passes) != len(outps):
            parsed = False
    if parsed:
        for k, o in enumerate(outps):
            first = passes[k][0] if passes[k] else None
            if first is not None and first[1] == pool[o]["producer"] and first[2][pool[o]["pos"]] is not None:
                W[k] = first[2][pool[o]["pos"]]
    else:
        skip("seed_log_not_parsed")

    # clause: the seed that was asked for is the seed that was used
    for k, o in enumerate(outps):
        if W[k] is None:
            continue
        want = None
        if seedmode == "use_df":
            want = np.asarray(use_df[k])
        elif seedmode == "ones":
            shp = pool[o]["shape"] if pool[o]["form"] not in ("py", "0d") else ()
            want = np.ones(shp) + (1j * np.ones(shp) if pool[o]["cplx"] else 0)
        if want is not None:
            gotw = np.asarray(W[k])
            if gotw.shape != want.shape or not np.array_equal(gotw, want):
                viol("seed-used", f"output {pool[o]['name']}: the module received a seed different from the requested "
                     f"{seedmode} seed (max diff {np.max(np.abs(gotw - want)) if gotw.shape == want.shape else 'shape'})", 0)
                return res

    # ---- model: forward accumulation of exact (T) and as-implemented (A) total Jacobians, with derivative bounds
    ucoord = {}
    ncoord = 0
    for f in dedupe(inps):
        s = pool[f]
        ucoord[f] = (ncoord, ncoord + s["n"] if s["cplx"] else None)
        ncoord += s["n"] * (2 if s["cplx"] else 1)
    N = ncoord
    DT, DA, L1, L2 = {}, {}, {}, {}
    for i, s in enumerate(pool):
        DT[i] = np.zeros((2 * s["n"], N))
        L1[i] = np.zeros(N)
        L2[i] = np.zeros(N)
    for f, (cre, cim) in ucoord.items():
        n = pool[f]["n"]
        DT[f][np.arange(n), cre + np.arange(n)] = 1.0
        L1[f][cre:cre + n] = 1.0
        if cim is not None:
            DT[f][n + np.arange(n), cim + np.arange(n)] = 1.0
            L1[f][cim:cim + n] = 1.0
    for i in DT:
        DA[i] = DT[i].copy()
    Mx = {i: (float(np.max(np.abs(s["val"]))) + 0.01) for i, s in enumerate(pool)}
    for mi, md in enumerate(mods):
        xin = [pool[p]["val"] for p in md["ins"]]
        b1, b2 = model_bounds(md["spec"], xin, [L1[p] for p in md["ins"]], [L2[p] for p in md["ins"]], [Mx[p] for p in md["ins"]])
        for o, p in enumerate(md["outs"]):
            if p in ucoord:
                continue                                  # cut: a perturbed signal is an independent variable
            dt = np.zeros_like(DT[p])
            da = np.zeros_like(DA[p])
            for j, q in enumerate(md["ins"]):
                dt = dt + md["J"][o][j] @ DT[q]
                da = da + md["spec"]["lam"].get((o, j), 1.0) * (md["J"][o][j] @ DA[q])
            DT[p], DA[p], L1[p], L2[p] = dt, da, b1[o], b2[o]
    ysc = 1.0 + max(float(np.linalg.norm(pool[i]["val"])) for i in used)

    GT, GA, SA, WN, free = [], [], [], [], []
    for k, o in enumerate(outps):
        s = pool[o]
        if W[k] is None:
            if np.any(DT[o] != 0) or np.any(DA[o] != 0):
                free.append(True)
                skip("seed_unobserved_output_not_judged")
            else:
                free.append(False)                        # the output does not depend on the inputs: any seed gives 0
            w = np.zeros(s["n"], dtype=complex)
        else:
            free.append(False)
            w = np.asarray(W[k]).ravel().astype(complex)
            if w.size != s["n"]:
                viol("seed-used", f"seed of output {s['name']} has {w.size} entries, the output has {s['n']}", 0)
                return res
        gw = np.concatenate([w.real, -w.imag])
        GT.append(gw @ DT[o])
        GA.append(gw @ DA[o])
        SA.append(np.abs(gw) @ np.abs(DA[o]))
        WN.append(float(np.linalg.norm(w)))

    exp = []           # expected tuples in the call order derived from the code
    per_input = []
    nz_skipped = 0
    for fi, f in enumerate(inps):
        s = pool[f]
        cre, cim = ucoord[f]
        cnt = 0
        for kk in s["order"]:
            x0 = complex(x0vals[f][kk]) if s["cplx"] else float(np.real(x0vals[f][kk]))
            iterable = s["form"] not in ("py", "npy")
            if x0 == 0:
                if kzs and iterable:
                    nz_skipped += 1
                    continue
                probe("zero_entries_perturbed")
            sf = abs(x0) if (kw["relative_dx"] and abs(x0) != 0) else 1.0
            h = dx * sf
            for part in ((0, 1) if s["cplx"] else (0,)):
                c = (cre if part == 0 else cim) + int(kk)
                sg = 1.0 if part == 0 else -1.0
                for k, o in enumerate(outps):
                    trunc = 0.5 * h * WN[k] * float(L2[o][c])
                    noise = KN * EPS / h * WN[k] * (ysc + float(L1[o][c]) * (1.0 + abs(x0)))
                    exp.append(dict(x0=complex(x0), an=sg * float(GA[k][c]), fd=sg * float(GT[k][c]), fi=fi, part=part, out=k,
                                    tol_an=TOL_AN * (1.0 + float(SA[k][c])), tol_fd=1.05 * trunc + noise + 1e-13, trunc=1.05 * trunc, noise=noise + 1e-13,
                                    free=free[k], f=f))
                    cnt += 1
        per_input.append(cnt)
    if nz_skipped:
        probe("zero_entries_skipped", nz_skipped)
    if any(s["negzero"] and not s["cplx"] and s["zfrac"] > 0 for s in case["srcs"]):
        probe("negative_zero")

    # ---- callback arguments
    rep = []
    for t, (x0, dx_, an, fd) in enumerate(got):
        if not (isinstance(dx_, (int, float, np.floating)) and float(dx_) == dx):
            viol("callback-args", f"tuple {t}: dx passed to test_fn is {dx_!r}, finite_difference was called with dx={dx!r}", t)
            return res
        xc, a, b = _x0c(x0), _as_float(an), _as_float(fd)
        if xc is None or a is None or b is None or not np.isfinite(a) or not np.isfinite(b):
            which = "analytical" if (a is None or not np.isfinite(a)) else ("numerical" if (b is None or not np.isfinite(b)) else "callback-args")
            viol(which, f"tuple {t}: test_fn received x0={x0!r}, analytical={an!r}, numerical={fd!r} (expected finite real scalars)", t)
            return res
        rep.append((xc, a, b))

    def compat(r, e):
        if r[0] != e["x0"]:
            return False
        if e["free"]:
            return True
        return abs(r[1] - e["an"]) <= e["tol_an"] and abs(r[2] - e["fd"]) <= e["tol_fd"]

    ordered_ok = len(rep) == len(exp) and all(compat(r, e) for r, e in zip(rep, exp))
    assign = None
    if ordered_ok:
        assign = list(range(len(rep)))
    elif len(rep) == len(exp) and len(rep) > 0:
        g = np.zeros((len(rep), len(exp)), dtype=np.int8)
        for i, r in enumerate(rep):
            for j, e in enumerate(exp):
                if compat(r, e):
                    g[i, j] = 1
        mt = maximum_bipartite_matching(sps.csr_matrix(g), perm_type="column")
        if np.all(mt >= 0):
            assign = [int(v) for v in mt]
            probe("order_differs_multiset_ok")
    elif len(rep) == 0 and len(exp) == 0:
        assign = []

    def tfeat(e):
        return ["pass:" + ("imag" if e["part"] else "real"), "at-input:" + pool[e["f"]]["form"] + ("-complex" if pool[e["f"]]["cplx"] else "")]

    if assign is None:
        kx = lambda z: (z.real, z.imag)      # noqa: E731
        if len(rep) != len(exp) or sorted((kx(r[0]) for r in rep)) != sorted((kx(e["x0"]) for e in exp)):
            viol("visits", f"test_fn was called {len(rep)} times, expected {len(exp)} (inputs {[pool[f]['name'] for f in inps]}, "
                 f"{len(outps)} outputs, keep_zero_structure={kzs}); perturbed x0 values "
                 f"{[r[0] for r in rep][:12]} vs expected {[e['x0'] for e in exp][:12]}", 0)
            return res
        # same visits, some value is off: diagnose with the code-derived order first, then without order
        for t, (r, e) in enumerate(zip(rep, exp)):
            if r[0] != e["x0"]:
                break
            if not compat(r, e):
                if abs(r[1] - e["an"]) > e["tol_an"]:
                    viol("analytical", f"tuple {t} (input {pool[e['f']]['name']}, x0={e['x0']}, {'imag' if e['part'] else 'real'} pass, "
                         f"output {pool[outps[e['out']]]['name']}): analytical {r[1]!r}, exact J^T w entry {e['an']!r} "
                         f"(|diff| {abs(r[1] - e['an']):.3e} > {e['tol_an']:.1e})", t, tfeat(e))
                else:
                    viol("numerical", f"tuple {t} (input {pool[e['f']]['name']}, x0={e['x0']}, {'imag' if e['part'] else 'real'} pass, "
                         f"output {pool[outps[e['out']]]['name']}): numerical {r[2]!r}, exact directional derivative {e['fd']!r} "
                         f"(|diff| {abs(r[2] - e['fd']):.3e} > C*dx+noise = {e['tol_fd']:.1e})", t, tfeat(e))
                return res
        for t, r in enumerate(rep):
            cands = [e for e in exp if e["x0"] == r[0]]
            if not any(compat(r, e) for e in cands):
                an_ok = [e for e in cands if abs(r[1] - e["an"]) <= e["tol_an"]]
                e0 = (an_ok or cands)[0]
                viol("numerical" if an_ok else "analytical",
                     f"tuple {t} (x0={r[0]}): ({r[1]!r}, {r[2]!r}) matches no expected (analytical, numerical) pair of that entry", t, tfeat(e0))
                return res
        viol("visits", "reported tuples cannot be assigned one-to-one to the expected tuples (some entry/output pair is "
             "reported twice and another one never)", 0)
        return res

    # margins on the unchanged tree
    m_an, m_fd, m_noise, m_lin = 0.0, 0.0, 0.0, 0.0
    for i, j in enumerate(assign):
        e = exp[j]
        if e["free"]:
            continue
        efd = abs(rep[i][2] - e["fd"])
        m_an = max(m_an, abs(rep[i][1] - e["an"]) / e["tol_an"])
        m_fd = max(m_fd, efd / e["tol_fd"])                                   # C*dx bound is rigorous and nearly attained by z^2
        m_noise = max(m_noise, max(0.0, efd - e["trunc"]) / e["noise"])      # what is left for rounding
        if e["trunc"] == 0.0:
            m_lin = max(m_lin, efd / e["noise"])                              # linear maps: rounding only
    res["margins"] = {"analytical_err_over_tol": float(m_an), "numerical_err_over_Cdx_plus_noise": float(m_fd),
                      "numerical_excess_over_Cdx_per_noise_allowance": float(m_noise),
                      "numerical_err_linear_maps_per_noise_allowance": float(m_lin)}
    judged = sum(1 for e in exp if not e["free"])
    res["nontrivial"] = judged > 0

    # ---- wrong module <-> non-matching pair
    disc = max([abs(e["an"] - e["fd"]) for e in exp if not e["free"]] or [0.0])
    worst = 0.0
    mism = 0
    for i, j in enumerate(assign):
        e = exp[j]
        d = abs(rep[i][1] - rep[i][2])
        worst = max(worst, d)
        if not e["free"] and d > e["tol_fd"] + e["tol_an"]:
            mism += 1
    if fault is None or disc == 0.0:
        if fault is not None:
            probe("wrong_block_off_path")
        if mism:
            viol("false-mismatch", f"{mism} (analytical, numerical) pairs of a correct module differ by more than C*dx+noise (largest {worst:.3e})", 0)
            return res
        res["trace"].append("F:none" if fault is None else "F:offpath")
    elif disc >= BIG:
        probe("wrong_module_run")
        fk = "wrong_block_" + fault["kind"]
        res["faults"][fk] = res["faults"].get(fk, 0) + 1
        if worst < 0.5 * disc:
            viol("wrong-not-reported", f"module {fkey[0]} has Jacobian block (out {fkey[1]}, in {fkey[2]}) multiplied by {fault['lam']}: "
                 f"exact discrepancy {disc:.3e}, largest reported |analytical - numerical| = {worst:.3e}", 0)
            return res
        res["trace"].append("F:reported")
    else:
        skip("wrong_block_barely_observable")
        res["trace"].append("F:small")

    # ---- printed summary agrees with the pairs handed to test_fn (guarded: the print format is not an interface)
    lines = re.findall(r"beyond tolerance \(([^)]*)\) = (\d+) / (\d+)", text)
    if ordered_ok and len(lines) == len(inps):
        tol = kw["tol"]
        ofs = 0
        for fi, (stol, nf, nt) in enumerate(lines):
            chunk = rep[ofs:ofs + per_input[fi]]
            ofs += per_input[fi]
            lo = hi = 0
            for (_, a, b) in chunk:
                ae = abs(a - b)
                mx = max(abs(a), abs(b))
                rel = ae / mx if mx > 0 else 0.0
                lo += int(min(ae, rel) > 4 * tol)
                hi += int(max(ae, rel) > tol / 4)
            if int(nt) != len(chunk) or not (lo <= int(nf) <= hi):
                viol("printed-summary", f"input {fi}: printed '{nf} / {nt}' values beyond tolerance {stol}; test_fn saw {len(chunk)} pairs of "
                     f"which between {lo} and {hi} differ by more than the tolerance", 0)
                return res
        probe("printed_summary_checked")
    else:
        skip("printed_summary_not_parsed_or_unordered")

    # ---- non-destructive: states restored bit for bit, no sensitivity left
    for i in watch:
        s = pool[i]
        now = _state_bytes(s["base"].state if s["base"] is not None else s["sig"].state)
        if now != before[i]:
            viol("state-restored", f"state of input {s['name']} (form {s['form']}, complex={s['cplx']}) is not bit-identical after the call: "
                 f"{(s['base'] or s['sig']).state!r}", 0, ["at-input:" + s["form"] + ("-complex" if s["cplx"] else "")])
            return res
    for i in used:
        s = pool[i]
        for sg, is_slice in ((s["sig"], s["base"] is not None), (s["base"], True)):
            if sg is None:
                continue
            g = sg.sensitivity
            if g is None:
                continue
            if is_slice and not np.any(np.asarray(g) != 0):
                probe("slice_base_sens_zeros")          # a SignalSlice cannot de-allocate its base: zeros are "not set"
                continue
            viol("sens-left", f"sensitivity of {s['name']} is still set after the call: {g!r}"[:300], 0,
                 ["sens-left:" + ("outside-subnetwork" if (wrap == "network" and s["producer"] is not None and s["producer"] < i_first) else "inside")])
            return res

    nt = len(exp)
    res["trace"].append(f"N:{'0' if nt == 0 else '1-5' if nt <= 5 else '6-20' if nt <= 20 else '21+'}:{'z' if nz_skipped else '-'}:"
                        f"{'ord' if ordered_ok else 'multiset'}")
    res["trace"].append("OK")
    res["detail"] = f"n={nt} disc={disc:.6g} worst={worst:.6g} man={m_an:.3g} mfd={m_fd:.3g}"
    return res
