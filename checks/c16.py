"""C16 -- Aggregations bound the true extreme; active sets select the requested band.

System under test: real pymoto.PNorm / KSFunction / SoftMinMax modules with real AggScaling(min|max, damping) and
AggActiveSet objects, driven through *sequences* of response() calls with changing positive data and changing lengths.

Per step three real objects see the same data:
  * the AggActiveSet is called directly (public __call__, "boolean mask returned by AggActiveSet") and its mask is
    judged against the band / sorted-count rule of the property (ties and float ambiguities accept every valid choice),
  * an unscaled twin module (same class, parameter, active set) yields `approx`, judged against the analytic bounds,
  * the subject (with AggScaling) is judged against the reference recursion s_k = d s_{k-1} + (1-d) true/approx,
    output = s_k approx (d = 0: output equals the true extreme).
"""
import math
import warnings
from fractions import Fraction

import numpy as np

from sim import seams
from sim.core import sub_rng

PROP = "C16"
LEVEL = "exploration"
TIERS = {"quick": dict(runs=14000, chunk=250), "thorough": dict(budget_s=480, max_runs=4_000_000, chunk=500)}
RUN_WALL_CAP = 30
RULE = ("one case = one aggregation module (PNorm|KSFunction|SoftMinMax, parameter of either sign, data scale 2^k) with "
        "optional AggScaling(which, damping) and optional AggActiveSet(lower_rel, upper_rel, lower_amt, upper_amt) and a "
        "generated history of 1-12 response() calls, each with fresh positive data of its own length n (1..12 enumerated "
        "exhaustively against a grid of fractions/bands/value distributions, sampled up to 200) and value distribution "
        "(uniform, narrow cluster, ties, all equal, dyadic grid with entries exactly on the band edge, permuted arange); "
        "distinct = distinct abstract traces (aggregator, sign, scaling kind, active-set kind, length class, distribution, "
        "rounding class of the removed counts, outcome); non-trivial = the damped scale factor was carried over at least "
        "one call, or a sorted-count removal / band was judged on data with distinct values")
PROBES = ["count_rounds_to_zero", "upper_count_rounds_to_zero", "lower_count_rounds_to_zero", "all_values_equal",
          "damping_history_ge5", "length_changed", "n_eq_1", "n_gt_50", "ties_at_cut", "band_edge_exact",
          "count_near_integer_both_roundings", "negative_parameter", "scaling_which_mismatched", "undamped_exact_judged", "true_extreme_outside_active_set",
          "recursion_judged", "bounds_judged", "mask_judged", "entries_removed_by_count", "entries_removed_by_band"]
FAULT_KINDS = []
COMPONENTS = {"real": ["pymoto.PNorm", "pymoto.KSFunction", "pymoto.SoftMinMax", "pymoto.AggScaling", "pymoto.AggActiveSet",
                       "scipy.special.softmax"], "stub": []}
ASSUMPTIONS = ["data are strictly positive and arguments stay in the non-overflowing range (|rho x|, |alpha x| <= 200, "
               "|p ln x| <= 200)",
               "with AggScaling and an active set that removes entries on the side of the scaled extreme, 'the true extreme' is the "
               "one of the active entries -- the set the aggregation is applied to ('corrected to the exact maximum or minimum of the "
               "input set', AggScaling docstring)",
               "for all-equal data the normalised value is 0/0: the mask is not judged (probe all_values_equal)",
               "bounds of an aggregate over an active set use the number of active entries"]
NOT_EXERCISED = ["sensitivities of the aggregation modules (not part of the property)"]

pym = None

AMT_GRID = [(la, ua) for la in (0.0, 0.1, 0.25, 1.0 / 3.0, 0.5) for ua in (1.0, 0.9, 0.75, 2.0 / 3.0, 0.5) if ua > la + 1e-9]
REL_GRID = [(0.0, 1.0), (0.25, 1.0), (0.0, 0.75), (0.25, 0.75), (0.5, 1.0), (0.0, 0.5)]
DIST_ENUM = ["uniform", "ties", "grid", "arange"]
DISTS = ["uniform", "uniform", "narrow", "ties", "ties", "equal", "grid", "grid", "arange"]
AGGS = ["pnorm", "ks", "soft"]
NICE_FRAC = [0.05, 0.1, 0.125, 0.2, 0.25, 0.3, 1.0 / 3.0, 0.4, 0.5, 0.6, 2.0 / 3.0, 0.7, 0.75, 0.8, 0.875, 0.9, 0.95]


def setup():
    global pym
    seams.install()
    pym = seams.import_pymoto()


# ------------------------------------------------------------------------------------------------ generation
def _param(rng, agg, sign):
    if agg == "pnorm":
        mag = float(rng.choice([1.0, 2.0, 4.0, 8.0, 20.0])) if rng.random() < 0.6 else float(rng.uniform(0.5, 24.0))
    else:
        mag = float(rng.choice([0.5, 1.0, 2.0, 8.0, 20.0])) if rng.random() < 0.6 else float(rng.uniform(0.1, 40.0))
    return sign * mag


def _frac(rng):
    return float(rng.choice(NICE_FRAC)) if rng.random() < 0.7 else float(round(rng.uniform(0.02, 0.98), 3))


def _active(rng, side):
    """ side: 'low' (remove low entries only), 'high', 'both' """
    lr, ur, la, ua = 0.0, 1.0, 0.0, 1.0
    if side in ("low", "both"):
        if rng.random() < 0.6:
            la = _frac(rng)
        if rng.random() < 0.5:
            lr = _frac(rng)
    if side in ("high", "both"):
        if rng.random() < 0.6:
            ua = _frac(rng)
        if rng.random() < 0.5:
            ur = _frac(rng)
    if ua <= la + 0.02:
        la, ua = min(la, ua) * 0.5, max(la, ua) * 0.5 + 0.5
    if ur <= lr + 0.02:
        lr, ur = min(lr, ur) * 0.5, max(lr, ur) * 0.5 + 0.5
    return dict(lr=float(lr), ur=float(ur), la=float(la), ua=float(ua))


def _draw_n(rng):
    u = rng.random()
    if u < 0.6:
        return int(rng.integers(1, 13))
    if u < 0.9:
        return int(rng.integers(13, 51))
    return int(rng.integers(51, 201))


def gen(rng, idx, tier):
    agg = str(rng.choice(AGGS))
    sign = 1.0 if rng.random() < 0.5 else -1.0
    case = dict(agg=agg, param=_param(rng, agg, sign), sc=int(rng.integers(-5, 6)), scaling=None, active=None, ops=[])
    if rng.random() < 0.7:
        which = "max" if sign > 0 else "min"
        if rng.random() < 0.1:
            which = "min" if which == "max" else "max"
        d = float(rng.choice([0.0, 0.0, 0.3, 0.5, 0.9])) if rng.random() < 0.7 else float(round(rng.uniform(0.0, 0.99), 3))
        case["scaling"] = dict(which=which, damping=d)
    if rng.random() < 0.75:
        if case["scaling"] is not None and rng.random() < 0.6:
            side = "low" if case["scaling"]["which"] == "max" else "high"
        else:
            side = str(rng.choice(["low", "high", "both", "both"]))
        case["active"] = _active(rng, side)
    nops = int(rng.integers(1, 13))
    same_n = _draw_n(rng) if rng.random() < 0.3 else None
    # wide dynamic range (six decades) with a large exponent: every |x_i|^p is still representable (|p| * 3 <= 290), but
    # intermediate quotients like (max/min)^|p| are not -- only for the p-norm, KS / soft-max would leave their |rho x| range
    wide = rng.random() < 0.15
    if wide and agg == "pnorm":
        case["param"] = sign * float(rng.choice([30.0, 60.0, 90.0]))
        case["sc"] = 0
    elif wide:
        # KS / soft-max on data spanning 0.5 .. 30 with a large |rho|: admissible for the soft *minimum* (rho < 0, largest
        # exponent -|rho|*min), skipped by the range guard for the soft maximum
        case["param"] = -float(rng.choice([30.0, 60.0, 100.0])) if rng.random() < 0.8 else float(rng.choice([5.0, 15.0]))
        case["sc"] = 0
        if case["scaling"] is not None:
            case["scaling"]["which"] = "min" if case["param"] < 0 else "max"
        if case["active"] is not None:
            case["active"] = _active(rng, "high" if case["param"] < 0 else "low")
    for _ in range(nops):
        n = same_n if (same_n is not None and rng.random() < 0.7) else _draw_n(rng)
        case["ops"].append(dict(n=n, dist=("wide" if agg == "pnorm" else "wide2") if wide else str(rng.choice(DISTS)),
                                seed=int(rng.integers(1 << 30))))
    return case


def enumerated_count(tier):
    return 12 * len(AMT_GRID) * len(REL_GRID) * len(DIST_ENUM)


def enumerated_case(i, tier):
    j = i
    n = 1 + j % 12
    j //= 12
    la, ua = AMT_GRID[j % len(AMT_GRID)]
    j //= len(AMT_GRID)
    lr, ur = REL_GRID[j % len(REL_GRID)]
    j //= len(REL_GRID)
    dist = DIST_ENUM[j % len(DIST_ENUM)]
    agg = AGGS[i % 3]
    removes_low = la > 0 or lr > 0
    removes_high = ua < 1 or ur < 1
    # the sign (and scaling side) is chosen so that scaling can be present whenever only one side is cut
    if removes_low and not removes_high:
        sign = 1.0
    elif removes_high and not removes_low:
        sign = -1.0
    else:
        sign = 1.0 if (i // 3) % 2 == 0 else -1.0
    scaling = None
    if not (removes_low and removes_high):
        scaling = dict(which="max" if sign > 0 else "min", damping=[0.0, 0.5, 0.9][(i // 7) % 3])
    mag = [2.0, 8.0, 1.0, 20.0][(i // 5) % 4]
    case = dict(agg=agg, param=sign * mag, sc=[0, -3, 4][(i // 11) % 3], scaling=scaling,
                active=dict(lr=lr, ur=ur, la=la, ua=ua),
                ops=[dict(n=n, dist=dist, seed=i), dict(n=13 - n, dist=DIST_ENUM[(i // 2) % 4], seed=i + 1),
                     dict(n=n, dist=dist, seed=i + 2)])
    return case


def simplify(case):
    import copy
    if case.get("scaling") is not None:
        c = copy.deepcopy(case)
        c["scaling"] = None
        yield c
        if case["scaling"]["damping"] != 0.0:
            c = copy.deepcopy(case)
            c["scaling"]["damping"] = 0.0
            yield c
    if case.get("active") is not None:
        c = copy.deepcopy(case)
        c["active"] = None
        yield c
        for k, neutral in (("lr", 0.0), ("ur", 1.0), ("la", 0.0), ("ua", 1.0)):
            if case["active"][k] != neutral:
                c = copy.deepcopy(case)
                c["active"][k] = neutral
                yield c
    if case.get("sc", 0) != 0:
        c = copy.deepcopy(case)
        c["sc"] = 0
        yield c
    if abs(case["param"]) != 2.0:
        c = copy.deepcopy(case)
        c["param"] = math.copysign(2.0, case["param"])
        yield c
    for k, op in enumerate(case["ops"]):
        if op["dist"] != "arange":
            c = copy.deepcopy(case)
            c["ops"][k]["dist"] = "arange"
            yield c
        for nn in (1, 2, op["n"] // 2, op["n"] - 1):
            if 1 <= nn < op["n"]:
                c = copy.deepcopy(case)
                c["ops"][k]["n"] = nn
                yield c


# ------------------------------------------------------------------------------------------------ payloads
def make_data(op, sc):
    """ strictly positive vector of length n, unit range about [0.02, 4] times 2**sc """
    n, dist = int(op["n"]), op["dist"]
    rng = sub_rng(0xC16, op["seed"], n)
    if dist == "uniform":
        u = 0.05 + 3.95 * rng.random(n)
    elif dist == "narrow":
        u = rng.uniform(0.1, 3.9) * (1.0 + 1e-3 * rng.random(n))
    elif dist == "ties":
        levels = np.sort(rng.uniform(0.05, 4.0, int(rng.integers(1, 5))))
        u = levels[rng.integers(0, len(levels), n)]
    elif dist == "equal":
        u = np.full(n, float(rng.uniform(0.05, 4.0)))
    elif dist == "grid":
        R = int(rng.choice([2, 4, 8, 16]))
        g = rng.integers(0, R + 1, n)
        if n >= 2:
            g[0], g[-1] = 0, R
        u = (int(rng.integers(1, 9)) + rng.permutation(g)) / 8.0
    elif dist == "arange":
        u = rng.permutation(1.0 + np.arange(n)) * (4.0 / (n + 1))
    elif dist == "wide":
        return 10.0 ** rng.uniform(-2.8, 2.8, n)
    elif dist == "wide2":
        return 10.0 ** rng.uniform(-0.3, 1.5, n)
    else:
        raise ValueError(dist)
    return np.asarray(u, dtype=float) * (2.0 ** sc)


def count_candidates(t):
    """ floor(t), both neighbouring integers when t is within 1e-9 of an integer """
    r = round(t)
    if abs(t - r) < 1e-9:
        return sorted({max(r - 1, 0), max(r, 0)}), True
    return [max(int(math.floor(t)), 0)], False


def _edge_exact(x, i, xmin, xmax, bound):
    """ True when entry i lies *exactly* on the band edge and the library-side quotient is exact as well """
    fx, fmin, fmax = Fraction(float(x[i])), Fraction(float(xmin)), Fraction(float(xmax))
    if Fraction(float(x[i] - xmin)) != fx - fmin or Fraction(float(xmax - xmin)) != fmax - fmin:
        return False
    return (fx - fmin) / (fmax - fmin) == Fraction(float(bound))


def judge_mask(x, m, A, probe, skip):
    """ -> None if the observed boolean mask `m` is one of the masks the property admits, else (msg, features) """
    n = x.size
    xmin, xmax = float(np.min(x)), float(np.max(x))
    if xmax == xmin:
        probe("all_values_equal")
        skip("mask_not_judged_all_equal")
        return None
    lr, ur, la, ua = A["lr"], A["ur"], A["la"], A["ua"]
    xrel = (x - xmin) / (xmax - xmin)
    inband = np.ones(n, dtype=bool)
    dontcare = np.zeros(n, dtype=bool)
    for bound, lower in ((lr, True), (ur, False)):
        if (lower and bound <= 0) or (not lower and bound >= 1):
            continue
        inband &= (xrel >= bound) if lower else (xrel <= bound)
        for i in np.nonzero(np.abs(xrel - bound) < 1e-9)[0]:
            if _edge_exact(x, i, xmin, xmax, bound):
                inband[i] = True        # closed interval: an entry exactly on the edge belongs to the band
                probe("band_edge_exact")
            else:
                dontcare[i] = True
                skip("band_edge_ambiguous_entry")
    KL, amb_l = count_candidates(n * la) if la > 0 else ([0], False)
    KU, amb_u = count_candidates(n * (1 - ua)) if ua < 1 else ([0], False)
    if amb_l or amb_u:
        probe("count_near_integer_both_roundings")
    feats = []
    if la > 0 and 0 in KL:
        probe("count_rounds_to_zero"), probe("lower_count_rounds_to_zero")
        feats.append("lower_count_rounds_to_zero")
    if ua < 1 and 0 in KU:
        probe("count_rounds_to_zero"), probe("upper_count_rounds_to_zero")
        feats.append("upper_count_rounds_to_zero")
    xs = np.sort(x)
    first_fail = None
    for kl in KL:
        for ku in KU:
            if kl + ku > n:
                continue
            must_rm = ~inband & ~dontcare
            tie_need = {}
            if kl > 0:
                a = xs[kl - 1]
                must_rm = must_rm | (x < a)
                tie_need[float(a)] = tie_need.get(float(a), 0) + kl - int(np.sum(x < a))
            if ku > 0:
                b = xs[n - ku]
                must_rm = must_rm | (x > b)
                tie_need[float(b)] = tie_need.get(float(b), 0) + ku - int(np.sum(x > b))
            tie = np.zeros(n, dtype=bool)
            for v in tie_need:
                tie |= (x == v)
            must_keep = inband & ~dontcare & ~must_rm & ~tie
            fail = None
            if np.any(m[must_rm]):
                fail = ("kept_should_be_removed", int(np.nonzero(m & must_rm)[0][0]))
            elif np.any(~m[must_keep]):
                fail = ("removed_should_be_kept", int(np.nonzero(~m & must_keep)[0][0]))
            else:
                for v, need in tie_need.items():
                    grp = (x == v) & ~must_rm
                    if not np.any(grp) or np.any(dontcare[grp]):
                        continue
                    if 0 < need < int(np.sum(grp)):
                        probe("ties_at_cut")
                    removed = int(np.sum(~m[grp]))
                    # entries of the tie group that are definitely outside the band were already handled by must_rm
                    want = min(need, int(np.sum(grp)))
                    if removed != want:
                        fail = ("tie_group_count", int(np.nonzero(grp)[0][0]))
                        break
            if fail is None:
                if kl + ku > 0:
                    probe("entries_removed_by_count")
                if np.any(~inband & ~dontcare):
                    probe("entries_removed_by_band")
                return None
            if first_fail is None:
                first_fail = (fail, kl, ku)
    (kind, i), kl, ku = first_fail
    feats = feats + [kind, f"n={n}" if n <= 12 else "n>12"]
    if int(np.sum(m)) == 0:
        feats.append("all_entries_removed")
    msg = (f"AggActiveSet(lower_rel={lr}, upper_rel={ur}, lower_amt={la}, upper_amt={ua}) on n={n} values: entry {i} "
           f"(value {float(x[i])!r}, normalised {xrel[i]:.6g}) {kind.replace('_', ' ')}; admissible removed counts "
           f"lowest={KL} highest={KU}; observed mask keeps {int(np.sum(m))} of {n}")
    return msg, feats


def in_range(agg, param, x):
    if agg == "pnorm":
        return float(np.max(np.abs(param * np.log(x)))) <= 600.0      # every |x_i|^p (and their sum) is representable
    # KS / soft-max: the largest exponent rho*x_i must neither overflow nor underflow (then every term the definition
    # needs is representable and their sum is positive); the smaller terms may underflow harmlessly
    e_max = float(np.max(param * x))
    return -600.0 <= e_max <= 600.0


def bounds(agg, param, xs):
    """ analytic (lower, upper) bounds of the aggregate of the positive values xs """
    n = xs.size
    mx, mn = float(np.max(xs)), float(np.min(xs))
    if agg == "pnorm":
        f = n ** (1.0 / param)
        return (mx, f * mx) if param > 0 else (f * mn, mn)
    if agg == "ks":
        off = math.log(n) / param
        return (mx, mx + off) if param > 0 else (mn + off, mn)
    mean = float(np.mean(xs))
    return (mean, mx) if param > 0 else (mn, mean)


# ------------------------------------------------------------------------------------------------ run
def run(case):
    warnings.simplefilter("ignore")
    res = dict(trace=[], nontrivial=False, steps=0, probes={}, faults={}, skipped={}, violations=[], margins={})
    P, S, M = res["probes"], res["skipped"], res["margins"]

    def probe(k):
        P[k] = P.get(k, 0) + 1

    def skip(k):
        S[k] = S.get(k, 0) + 1

    def margin(k, v):
        M[k] = max(M.get(k, 0.0), float(v))

    def viol(clause, msg, at, feats=()):
        res["violations"].append(dict(cls=["C16", clause], msg=msg, at=at, features=list(feats)))

    agg, param, sc = case["agg"], float(case["param"]), int(case.get("sc", 0))
    A, SC = case.get("active"), case.get("scaling")
    cls = {"pnorm": pym.PNorm, "ks": pym.KSFunction, "soft": pym.SoftMinMax}[agg]
    pname = {"pnorm": "p", "ks": "rho", "soft": "alpha"}[agg]
    pval = param if agg == "pnorm" else param / (2.0 ** sc)
    if param < 0:
        probe("negative_parameter")

    def new_aset():
        return pym.AggActiveSet(lower_rel=A["lr"], upper_rel=A["ur"], lower_amt=A["la"], upper_amt=A["ua"])

    details, nums = [], []
    try:
        sx_t, sx_s = pym.Signal("x_twin"), pym.Signal("x_subject")
        aset = new_aset() if A is not None else None
        twin = cls(sx_t, **{pname: pval}, **({"active_set": new_aset()} if A is not None else {}))
        subject = None
        if SC is not None:
            subject = cls(sx_s, **{pname: pval}, scaling=pym.AggScaling(SC["which"], damping=SC["damping"]),
                          **({"active_set": new_aset()} if A is not None else {}))
            if (SC["which"] == "max") != (param > 0):
                probe("scaling_which_mismatched")
    except Exception as ex:  # noqa
        viol("exception-construct", f"constructing {cls.__name__} raised {type(ex).__name__}: {str(ex)[:160]}", 0)
        res["detail"] = ""
        return res

    s_ref = None          # reference scale factor
    n_scaled = 0
    ambiguous = False     # the scaled history left the unambiguous regime (true extreme outside the active set)
    prev_n = None
    akind = "-" if A is None else ("".join(c for c, on in (("r", A["lr"] > 0), ("R", A["ur"] < 1), ("a", A["la"] > 0),
                                                            ("A", A["ua"] < 1)) if on) or "0")
    skind = "-" if SC is None else (SC["which"] + ("d" if SC["damping"] > 0 else "0"))
    for at, op in enumerate(case["ops"]):
        res["steps"] += 1
        n = int(op["n"])
        x = make_data(op, sc)
        ncls = "1" if n == 1 else ("s" if n <= 12 else ("m" if n <= 50 else "l"))
        tok = f"{agg}{'+' if param > 0 else '-'}:{skind}:{akind}:{ncls}:{op['dist']}"
        if n == 1:
            probe("n_eq_1")
        if n > 50:
            probe("n_gt_50")
        if prev_n is not None and prev_n != n:
            probe("length_changed")
        prev_n = n
        if not in_range(agg, pval, x):
            skip("argument_outside_nonoverflowing_range")
            res["trace"].append(tok + ":range-skip")
            continue

        # ---- active set: the mask returned by AggActiveSet itself
        m = np.ones(n, dtype=bool)
        if A is not None:
            try:
                sel = aset(x.copy())
                m = np.zeros(n, dtype=bool)
                m[sel] = True
            except Exception as ex:  # noqa
                viol("exception-active-set", f"step {at}: AggActiveSet.__call__ on n={n} values raised "
                     f"{type(ex).__name__}: {str(ex)[:160]}", at, [f"dist={op['dist']}"])
                res["trace"].append(tok + ":EXC")
                break
            bad = judge_mask(x, m, A, probe, skip)
            probe("mask_judged")
            if bad is not None:
                viol("active-mask", f"step {at} ({op['dist']} data): " + bad[0], at, bad[1])
                details.append(f"x={x.tolist()} mask={m.tolist()}")
                res["trace"].append(tok + ":MASK")
                break
            if float(np.max(x)) != float(np.min(x)) and (A["la"] > 0 or A["ua"] < 1 or A["lr"] > 0 or A["ur"] < 1):
                res["nontrivial"] = True
            klc = count_candidates(n * A["la"])[0] if A["la"] > 0 else None
            kuc = count_candidates(n * (1 - A["ua"]))[0] if A["ua"] < 1 else None
            tok += ":k" + ("z" if (klc and 0 in klc) else ("p" if klc else "-")) + ("z" if (kuc and 0 in kuc) else ("p" if kuc else "-"))
        xs = x[m]
        if xs.size == 0:
            skip("empty_active_set_no_aggregate")
            res["trace"].append(tok + ":empty")
            continue

        # ---- unscaled twin: analytic bounds
        try:
            sx_t.state = x.copy()
            twin.response()
            approx = float(twin.sig_out[0].state)
        except Exception as ex:  # noqa
            viol("exception-response", f"step {at}: {cls.__name__}({pname}={pval}).response() on n={n} positive values "
                 f"({xs.size} active) raised {type(ex).__name__}: {str(ex)[:160]}", at, ["unscaled"])
            res["trace"].append(tok + ":EXC")
            break
        want_max = param > 0
        ext_all = float(np.max(x)) if want_max else float(np.min(x))
        ext_sel = float(np.max(xs)) if want_max else float(np.min(xs))
        if ext_all != ext_sel:
            skip("bounds_not_judged_extreme_outside_active_set")
        else:
            lo, hi = bounds(agg, pval, xs)
            tol = 1e-9 * max(abs(lo), abs(hi), abs(ext_sel))
            probe("bounds_judged")
            margin("bounds_excess_over_tol", max(lo - approx, approx - hi, 0.0) / tol)
            if not (lo - tol <= approx <= hi + tol) or not math.isfinite(approx):
                viol("bounds", f"step {at}: {cls.__name__}({pname}={pval}) of {xs.size} active values (of n={n}) = {approx!r} "
                     f"outside [{lo!r}, {hi!r}] (true {'maximum' if want_max else 'minimum'} {ext_sel!r})", at,
                     [agg, "max" if want_max else "min", "with_active_set" if A is not None else "no_active_set"])
                details.append(f"x={x.tolist()}")
                res["trace"].append(tok + ":BOUNDS")
                break

        # ---- scaled subject: recursion
        if subject is not None:
            try:
                sx_s.state = x.copy()
                subject.response()
                out = float(subject.sig_out[0].state)
            except Exception as ex:  # noqa
                viol("exception-response", f"step {at}: scaled {cls.__name__}.response() on n={n} positive values "
                     f"({xs.size} active) raised {type(ex).__name__}: {str(ex)[:160]}", at, ["scaled"])
                res["trace"].append(tok + ":EXC")
                break
            smax = SC["which"] == "max"
            true_all = float(np.max(x)) if smax else float(np.min(x))
            true_sel = float(np.max(xs)) if smax else float(np.min(xs))
            d = float(SC["damping"])
            if true_all != true_sel:
                # the active set removed the extreme of the whole vector: the aggregation sees only the active entries, and the
                # scaling corrects it "to the exact maximum or minimum of the input set" (AggScaling docstring) -- the active ones
                probe("true_extreme_outside_active_set")
            if approx == 0.0 or abs(approx) < 1e-9 * abs(true_sel) or not math.isfinite(approx):
                ambiguous = True
            if ambiguous and d > 0:
                skip("recursion_not_judged_true_extreme_ambiguous")
                res["trace"].append(tok + ":amb")
                continue
            if ambiguous:
                # undamped: no memory, only this step is ambiguous
                ambiguous = False
                skip("exact_extreme_not_judged_true_extreme_ambiguous")
                res["trace"].append(tok + ":amb")
                continue
            scale = true_sel / approx
            s_ref = scale if s_ref is None else d * s_ref + (1.0 - d) * scale
            expected = s_ref * approx
            n_scaled += 1
            if n_scaled >= 2 and d > 0:
                res["nontrivial"] = True
            if n_scaled >= 5 and d > 0:
                probe("damping_history_ge5")
            if d == 0.0:
                tol = 1e-12 * abs(true_sel)
                probe("undamped_exact_judged")
                margin("undamped_exact_err_over_tol", abs(out - true_sel) / tol)
                if not abs(out - true_sel) <= tol:
                    viol("undamped-exact", f"step {at}: undamped AggScaling('{SC['which']}') output {out!r} != true extreme "
                         f"{true_sel!r} (n={n}, {xs.size} active, unscaled value {approx!r})", at,
                         [agg, SC["which"], "with_active_set" if A is not None else "no_active_set"])
                    details.append(f"x={x.tolist()}")
                    res["trace"].append(tok + ":EXACT")
                    break
            else:
                tol = 1e-10 * max(abs(expected), abs(true_sel))
                probe("recursion_judged")
                margin("recursion_err_over_tol", abs(out - expected) / tol)
                if not abs(out - expected) <= tol:
                    viol("damped-recursion", f"step {at} (scaled call #{n_scaled}): output {out!r} != s_k*approx = {expected!r} "
                         f"with s_k = d*s_(k-1) + (1-d)*true/approx, d={d}, true={true_sel!r}, approx={approx!r}", at,
                         [agg, SC["which"], "first_call" if n_scaled == 1 else "later_call",
                          "with_active_set" if A is not None else "no_active_set"])
                    details.append(f"x={x.tolist()}")
                    res["trace"].append(tok + ":RECURSION")
                    break
        nums.append(f"{approx!r}/{out!r}" if subject is not None else f"{approx!r}")
        res["trace"].append(tok + ":ok")
    details = nums + details
    res["detail"] = ";".join(details)
    return res
