"""C06 -- LDAWrapper is transparent and reuses earlier solutions.

System under test: real pymoto.solvers.LDAWrapper around real inner solvers; the inner solver is wrapped by a counting
delegate (the `count` seam).  Histories of update()/solve() are generated as data; a single-copy reference model (the
current matrix + the right-hand sides answered since the last update, per trans mode) decides transparency and reuse.
"""
import os
import warnings

import numpy as np

from sim import seams
from sim.core import sub_rng
from sim import gen as G

PROP = "C06"
LEVEL = "exploration"
TIERS = {"quick": dict(runs=6000, chunk=100), "thorough": dict(budget_s=480, max_runs=1_500_000, chunk=200)}
RUN_WALL_CAP = 60
RULE = ("one case = one LDAWrapper history: matrix class/inner solver/flags/tolerance + a generated list of "
        "update(A_i) [values and off-diagonal sparsity pattern redrawn], solve(b, trans, x0) [b fresh, repeat, scaled, "
        "real/complex combination of earlier b's, zero, block with dependent/zero columns] and cholesky_fail fault ops; "
        "distinct = distinct abstract traces (op kind, rhs kind, trans, dtype kinds, reuse outcome); non-trivial = at "
        "least one solve was answered from the database (reuse hit) or followed an update that discarded a non-empty database")
PROBES = ["reuse_hit", "adjoint_storage", "conj_mode", "decoupled_dofs", "rows_only_decoupled", "cols_only_decoupled",
          "real_after_complex", "complex_after_real", "x0_nonempty_db", "fortran_ordered_matrix", "zero_rhs", "zero_column", "dependent_block",
          "update_after_solves", "badly_scaled_block", "fresh_twin_also_raises", "reuse_judged", "reuse_not_judged_mixed_dtype", "reuse_not_judged_rank",
          "cholesky_fallback", "two_wrappers", "stored_zeros_fixed_structure", "rhs_fortran_order", "rhs_strided_view", "matrix_given_to_constructor"]
FAULT_KINDS = ["cholesky_fail_forced", "cholesky_fail_natural", "inexact_inner_solver"]
COMPONENTS = {"real": ["pymoto.solvers.LDAWrapper", "pymoto.solvers.SolverDenseLU/QR/Cholesky/LDL", "pymoto.solvers.SolverSparseLU",
                       "pymoto.solvers.CG", "scipy LAPACK/SuperLU"],
              "stub": ["counting delegate around the inner solver (forwards every call)", "scipy.linalg.cholesky failure injection"]}
ASSUMPTIONS = ["matrix class (symmetric/Hermitian flags) is fixed per wrapper: construction-time contract of LinearSolver.update",
               "reuse is judged only within one trans mode and only for homogeneous data types (documented LDAS behaviour)",
               "matrices are strictly diagonally dominant (condition number O(10))"]
NOT_EXERCISED = ["Pardiso / CHOLMOD / UMFPACK inner solvers (not installed)"]

pym = None

INNER_BY_CLASS = {
    "general": ["lu", "qr", "splu"],
    "sym": ["lu", "qr", "ldl", "splu"],
    "spd": ["lu", "qr", "ldl", "chol", "splu", "cg"],
    "herm": ["lu", "qr", "ldl", "splu"],
    "hpd": ["lu", "qr", "ldl", "chol", "splu", "cg"],
    "csym": ["lu", "qr", "ldl", "splu"],
}


def setup():
    global pym
    seams.install()
    pym = seams.import_pymoto()


def flags_for(cls, cplx):
    """ (symmetric, hermitian) as a user would pass them """
    if cls in ("sym", "spd"):
        return True, True
    if cls in ("herm", "hpd"):
        return (not cplx), True
    if cls == "csym":
        return True, False
    return False, False


# ------------------------------------------------------------------------------------------------ generation
def gen(rng, idx, tier):
    cplx = bool(rng.random() < 0.4)
    cls = str(rng.choice(G.CLASSES_CPLX if cplx else G.CLASSES_REAL))
    inner = str(rng.choice(INNER_BY_CLASS[cls]))
    big = tier == "thorough"
    n = int(rng.integers(2, 9)) if rng.random() < (0.5 if big else 0.8) else int(rng.integers(9, 25 if big else 15))
    sparse = str(rng.choice(["csc", "csc_full"])) if inner == "splu" else (None if inner != "cg" else str(rng.choice(["csc", "none", "csc_full"])))
    if sparse == "none":
        sparse = None
    flags = "explicit" if rng.random() < 0.5 else "auto"
    tol = float(rng.choice([1e-5, 1e-7, 1e-9])) if inner != "cg" else float(rng.choice([1e-5, 1e-7]))
    nwr = 2 if rng.random() < 0.15 else 1
    case = dict(n=n, cls=cls, cplx=cplx, inner=inner, sparse=sparse, flags=flags, tol=tol, nwr=nwr, ops=[],
                layout=["C", "C", "F", "T"][idx % 4])
    nops = int(rng.integers(3, 40 if big else 16))
    kinds_enabled = [k for k in ["fresh", "repeat", "scale", "combo", "zero", "depblock", "zerocol", "block", "scaledblock"]
                     if rng.random() < 0.75] or ["fresh"]
    allow_cplx_rhs = not (sparse is not None and not cplx)   # documented limitation of SuperLU with real matrices
    p_cplx_rhs = float(rng.choice([0.0, 0.3, 0.7])) if allow_cplx_rhs else 0.0
    p_update = float(rng.choice([0.05, 0.15, 0.3]))
    p_x0 = float(rng.choice([0.0, 0.2, 0.5]))
    p_fault = 0.15 if inner == "chol" and rng.random() < 0.5 else 0.0
    scale0 = float(rng.choice([1.0, 1.0, 1.0, 1e-10, 1e-4, 1e6]))
    first = True
    for _ in range(nops):
        w = int(rng.integers(0, nwr))
        if first or rng.random() < p_update:
            pat = "full" if (first and flags == "auto") else str(rng.choice(G.PATTERNS))
            if p_fault and rng.random() < 0.5:
                case["ops"].append(dict(op="fault", kind="cholesky_fail", arm=1))
            case["ops"].append(dict(op="update", w=w, seed=int(rng.integers(1 << 30)), pattern=pat,
                                    scale=scale0 * float(rng.choice([1.0, 1.0, 10.0, 0.1]))))
            if first and nwr == 2:
                case["ops"].append(dict(op="update", w=1 - w, seed=int(rng.integers(1 << 30)), pattern="full"))
            first = False
            if rng.random() < 0.3:
                # the very first solve on an empty database, with an initial guess and a block in which some column needs no
                # inner solve (zero column) -- the x0 bookkeeping of a fresh database
                case["ops"].append(dict(op="solve", w=w, kind=str(rng.choice(["zerocol", "block", "depblock"])), trans=str(rng.choice(["N", "N", "T"])),
                                        seed=int(rng.integers(1 << 30)), cplx=False, k=int(rng.choice([2, 3])),
                                        refs=[int(r) for r in rng.integers(0, 64, size=3)],
                                        coef=[[float(c) for c in rng.uniform(-2, 2, 2)] for _ in range(3)], x0="rand"))
            continue
        kind = str(rng.choice(kinds_enabled))
        trans = str(rng.choice(["N", "N", "T", "H"]))
        op = dict(op="solve", w=w, kind=kind, trans=trans, seed=int(rng.integers(1 << 30)),
                  cplx=bool(rng.random() < p_cplx_rhs), k=int(rng.choice([0, 0, 1, 2, 3])),
                  refs=[int(r) for r in rng.integers(0, 64, size=3)],
                  coef=[[float(c) for c in rng.uniform(-2, 2, 2)] for _ in range(3)],
                  x0=str(rng.choice(["none", "prev", "rand"])) if rng.random() < p_x0 else "none")
        case["ops"].append(op)
    return case


N_ITER_FAMILY = 96
N_MIXED_FAMILY = 48


def enumerated_count(tier):
    # exhaustive sweep over all off-diagonal sparsity patterns of small general matrices (first update, flags explicit), then a
    # fixed family of histories for an *iterative* inner solver: a block with dependent columns and an initial guess (the columns'
    # solutions differ by the solver's accuracy, not by rounding), followed by new, scaled and repeated right-hand sides
    # ... and a family of mixed real / complex histories on one real matrix: complex pairs are stored first, real right-hand sides
    # cannot use them, so a real vector that is nearly parallel to a stored complex one is orthogonalised with heavy cancellation
    # (case 0 of the family is the literal history of fixed finding C06-F7)
    if tier == "thorough":
        return 64 + N_ITER_FAMILY + N_MIXED_FAMILY + 4096
    return 64 + N_ITER_FAMILY + N_MIXED_FAMILY


def enumerated_case(i, tier):
    if 64 <= i < 64 + N_ITER_FAMILY:
        j = i - 64
        cplx = j % 3 == 2
        ops = [dict(op="update", w=0, seed=5000 + j, pattern="full", scale=[1.0, 1e-5, 1e3][j % 3]),
               dict(op="solve", w=0, kind="depblock", trans="N", seed=9000 + j, cplx=False, k=[0, 3][j % 2], refs=[0, 1, 2],
                    coef=[[2.0, 0.0], [-0.5, 0.0], [0.7, 0.0]], x0="rand")]
        for q, (kind, trans) in enumerate([("fresh", "N"), ("scale", "N"), ("fresh", "H"), ("repeat", "H"), ("combo", "N"), ("zerocol", "N"),
                                           ("repeat", "N")]):
            ops.append(dict(op="solve", w=0, kind=kind, trans=trans, seed=13 * j + q, cplx=False, k=0, refs=[q, q + 1, q + 2],
                            coef=[[1.5, 0.0], [-0.5, 0.0], [0.7, 0.0]], x0="none"))
        return dict(n=[40, 60, 24, 48][j % 4], cls="hpd" if cplx else "spd", cplx=cplx, inner="cg", sparse=["csc", None, "csc_full"][j % 3],
                    flags="explicit", tol=1e-7, nwr=1, ops=ops, cg_tol=[1e-10, 1e-9][(j // 4) % 2])
    if 64 + N_ITER_FAMILY <= i < 64 + N_ITER_FAMILY + N_MIXED_FAMILY:
        j = i - 64 - N_ITER_FAMILY
        if j in (1, 2):
            # literal histories of the fixed findings C06-F7 (soak seed 31) and C06-F8 (soak seed 0), see checks/c06_literals.json
            import json
            with open(os.path.join(os.path.dirname(os.path.abspath(__file__)), "c06_literals.json")) as f:
                return json.load(f)[j - 1]
        sd = (lambda q: [527734969, 592492115, 839490429, 873106700, 262143286, 839635873, 290121255][q]) if j == 0 else \
            (lambda q: 77000 + 10 * j + q)
        cf = [[0.47, 1.1], [-1.74, -0.075], [0.73, 1.44]]
        ops = [dict(op="update", w=0, seed=sd(0), pattern="banded", scale=[1e5, 1.0, 1e-3][j % 3] if j else 1e5)]
        for q, (kind, trans, cpx, refs) in enumerate([("fresh", "N", False, [14, 29, 57]), ("block", "H", True, [20, 33, 59]),
                                                      ("scaledblock", "N", False, [54, 60 + j, 21]), ("combo", "N", False, [55, 20, 44]),
                                                      ("block", "N", False, [46, 19, 49]), ("fresh", "N", True, [10, 55, 47])]):
            ops.append(dict(op="solve", w=0, kind=kind, trans=trans, seed=sd(q + 1), cplx=cpx, k=0, refs=refs, coef=cf, x0="none"))
        return dict(n=22 if j == 0 else [22, 12, 30, 16][j % 4], cls="spd", cplx=False, inner=["chol", "lu", "ldl"][j % 3] if j else "chol",
                    sparse=None, flags="explicit", tol=1e-9, nwr=1, ops=ops)
    if i >= 64 + N_ITER_FAMILY:
        i -= N_ITER_FAMILY + N_MIXED_FAMILY
    if i < 64:
        n, bits = 3, i
    else:
        n, bits = 4, i - 64
    ops = [dict(op="update", w=0, seed=1000 + i, pattern=dict(bits=bits))]
    for j, (kind, trans) in enumerate([("fresh", "N"), ("fresh", "T"), ("repeat", "N"), ("fresh", "H"), ("combo", "T"),
                                       ("block", "N")]):
        ops.append(dict(op="solve", w=0, kind=kind, trans=trans, seed=7 * i + j, cplx=False, k=0 if kind != "block" else 2,
                        refs=[0, 1, 2], coef=[[1.5, 0.0], [-0.5, 0.0], [0.7, 0.0]], x0="none"))
    return dict(n=n, cls="general", cplx=False, inner="lu" if i % 2 == 0 else "splu",
                sparse=None if i % 2 == 0 else "csc", flags="explicit", tol=1e-7, nwr=1, ops=ops)


def simplify(case):
    import json
    from sim.core import jdump
    # try a single wrapper, smaller n, real data, simpler patterns, no x0
    if case.get("nwr", 1) > 1:
        c = json.loads(jdump(case))
        c["nwr"] = 1
        yield c
    if case["n"] > 2:
        c = json.loads(jdump(case))
        c["n"] = case["n"] - 1
        yield c
    for i, op in enumerate(case["ops"]):
        if op.get("op") == "solve":
            for key, val in (("x0", "none"), ("k", 0), ("cplx", False), ("kind", "fresh"), ("trans", "N")):
                if op.get(key) != val:
                    c = json.loads(jdump(case))
                    c["ops"][i][key] = val
                    yield c
        if op.get("op") == "update" and op.get("pattern") != "full" and not isinstance(op.get("pattern"), dict):
            c = json.loads(jdump(case))
            c["ops"][i]["pattern"] = "full"
            yield c


# ------------------------------------------------------------------------------------------------ system under test
class Counting:
    """ count seam: delegates to a real solver and records every call """
    def __init__(self, inner):
        self.inner = inner
        self.solve_calls = 0
        self.solve_cols = 0
        self.update_calls = 0
        if hasattr(inner, "tol"):
            self.tol = inner.tol

    def update(self, A):
        self.update_calls += 1
        return self.inner.update(A)

    def solve(self, rhs, x0=None, trans='N'):
        self.solve_calls += 1
        self.solve_cols += 1 if rhs.ndim == 1 else rhs.shape[1]
        return self.inner.solve(rhs, x0=x0, trans=trans)


def make_inner(name, cg_tol=1e-10):
    S = pym.solvers
    if name == "lu":
        return S.SolverDenseLU()
    if name == "qr":
        return S.SolverDenseQR()
    if name == "chol":
        return S.SolverDenseCholesky()
    if name == "ldl":
        return S.SolverDenseLDL()
    if name == "splu":
        return S.SolverSparseLU()
    if name == "cg":
        return S.CG(tol=cg_tol, preconditioner=S.Preconditioner(), maxit=2000)
    raise ValueError(name)


def make_wrapper(case):
    inner = Counting(make_inner(case["inner"], cg_tol=case.get("cg_tol", 1e-10)))
    kw = dict(tol=case["tol"])
    if case["flags"] == "explicit":
        sym, herm = flags_for(case["cls"], case["cplx"])
        kw.update(symmetric=sym, hermitian=herm)
    return pym.solvers.LDAWrapper(inner, **kw), inner


def build_rhs(op, n, hist, cplx_ok):
    """ hist: list of 1-D rhs columns given earlier with the same trans since the last update (model state) """
    kind = op["kind"]
    cplx = bool(op["cplx"]) and cplx_ok
    k = int(op["k"])
    shape = (n,) if k == 0 else (n, k)
    coefs = [G.j2c(c) if cplx else float(c[0]) for c in op["coef"]]
    if kind in ("repeat", "scale", "combo") and len(hist) == 0:
        kind = "fresh"
    if kind == "fresh":
        return G.rand_vec(op["seed"], shape, cplx), "fresh"
    if kind == "block":
        return G.rand_vec(op["seed"], (n, max(2, k)), cplx), "block"
    if kind == "zero":
        return np.zeros(shape, dtype=complex if cplx else float), "zero"
    if kind == "scaledblock":
        # load cases of very different magnitude in one block (each column is judged by its own relative residual)
        v = G.rand_vec(op["seed"], (n, max(2, k)), cplx)
        j = op["refs"][0] % v.shape[1]
        v[:, j] *= 10.0 ** (-(3 + op["refs"][1] % 7))
        if len(hist) and op["refs"][2] % 2:
            v[:, (j + 1) % v.shape[1]] = hist[op["refs"][2] % len(hist)] * 2.0     # next to a column that is already in the span
        return v, "scaledblock"
    if kind == "repeat":
        b = hist[op["refs"][0] % len(hist)].copy()
        return b, "repeat"
    if kind == "scale":
        b = hist[op["refs"][0] % len(hist)] * coefs[0]
        return b, "scale"
    if kind == "combo":
        b = 0
        for r, c in zip(op["refs"], coefs):
            b = b + hist[r % len(hist)] * (c if c != 0 else 1.0)
        if k > 0:
            cols = [b]
            for j in range(1, k):
                cols.append(hist[(op["refs"][0] + j) % len(hist)] * (coefs[j % 3] if coefs[j % 3] != 0 else 1.0))
            ctype = np.result_type(*cols)
            b = np.stack([np.asarray(c, dtype=ctype) for c in cols], axis=1)
        return b, "combo"
    if kind == "depblock":
        v = G.rand_vec(op["seed"], (n,), cplx)
        c = coefs[0] if coefs[0] != 0 else 2.0
        return np.stack([v, c * v] + ([v * 0.5 + c * v] if k >= 3 else []), axis=1), "depblock"
    if kind == "zerocol":
        v = G.rand_vec(op["seed"], (n, max(2, k)), cplx)
        v[:, op["refs"][0] % v.shape[1]] = 0
        return v, "zerocol"
    raise ValueError(kind)


def inner_accuracy(case):
    return 1e-8 if case["inner"] == "cg" else 1e-11


# ------------------------------------------------------------------------------------------------ run + oracle
def run(case):
    warnings.simplefilter("ignore")
    np.seterr(all="ignore")
    seams.reset_run([6, case["n"]])
    n = case["n"]
    res = dict(trace=[], nontrivial=False, steps=0, probes={}, faults={}, skipped={}, violations=[], margins={})
    P = res["probes"]

    def probe(k, c=1):
        P[k] = P.get(k, 0) + c

    def viol(clause, msg, at, feats=()):
        res["violations"].append(dict(cls=["C06", clause], msg=msg, at=at,
                                      features=list(feats) + [f"inner={case['inner']}", f"cls={case['cls']}"]))

    nwr = case.get("nwr", 1)
    W = [None] * nwr
    model = [dict(A=None, hist={"N": [], "T": [], "H": []}, cplx_seen=False, prev_x=None, nsolves=0) for _ in range(nwr)]
    if nwr == 2:
        probe("two_wrappers")
    mdesc = dict(n=n, cls=case["cls"], cplx=case["cplx"], sparse=case["sparse"])
    # the wrapper accepts a projected answer only when its relative residual is <= tol and otherwise lets the inner solver finish:
    # every answer is good to max(tol, inner accuracy); factor 2 for the rounding of two residual evaluations
    bound = 2 * max(case["tol"], inner_accuracy(case))
    detail = []

    for at, op in enumerate(case["ops"]):
        res["steps"] += 1
        if op["op"] == "fault":
            if op["kind"] == "cholesky_fail":
                seams.state["chol_arm"] = int(op.get("arm", 1))
            res["trace"].append("F")
            continue
        w = op.get("w", 0) % nwr
        m = model[w]
        if op["op"] == "update":
            A = G.make_matrix(dict(mdesc, seed=op["seed"], pattern=op["pattern"], scale=op.get("scale", 1.0),
                                   layout=case.get("layout", "C")))
            A_ref = A.copy()                # the oracle's own copy, taken before the wrapper sees the matrix
            if isinstance(A, np.ndarray) and not A.flags.c_contiguous:
                probe("fortran_ordered_matrix")
            via_ctor = False
            if W[w] is None:
                W[w] = make_wrapper(case)
                if op["seed"] % 4 == 0:
                    # documented alternative: LDAWrapper(solver, A=A) updates right away
                    inner_ = Counting(make_inner(case["inner"], cg_tol=case.get("cg_tol", 1e-10)))
                    kw_ = dict(tol=case["tol"])
                    if case["flags"] == "explicit":
                        sym_, herm_ = flags_for(case["cls"], case["cplx"])
                        kw_.update(symmetric=sym_, hermitian=herm_)
                    try:
                        W[w] = (pym.solvers.LDAWrapper(inner_, A=A, **kw_), inner_)
                        via_ctor = True
                        probe("matrix_given_to_constructor")
                    except Exception:  # noqa  (judged below through the explicit update)
                        W[w] = make_wrapper(case)
            wrapper, counter = W[w]
            had = any(len(h) for h in m["hist"].values())
            f0 = seams.state["chol_forced"] + seams.state["chol_natural"]
            try:
                if not via_ctor:
                    wrapper.update(A)
            except Exception as e:  # noqa
                # would the same update succeed on a fresh wrapper?
                try:
                    fw, _ = make_wrapper(case)
                    fw.update(A)
                    viol("exception-update", f"update raised {type(e).__name__}: {str(e)[:200]} (fresh wrapper succeeds)", at)
                except Exception:
                    probe("fresh_twin_also_raises")
                    res["skipped"]["update_raises_on_fresh_too"] = res["skipped"].get("update_raises_on_fresh_too", 0) + 1
                break
            if seams.state["chol_forced"] + seams.state["chol_natural"] > f0:
                probe("cholesky_fallback")
            m["A"] = A_ref
            if case["sparse"] and case["sparse"].endswith("_full") and op["pattern"] != "full":
                probe("stored_zeros_fixed_structure")
            m["hist"] = {"N": [], "T": [], "H": []}
            m["cplx_seen"] = False
            if had:
                probe("update_after_solves")
                res["nontrivial"] = True
            Ad = G.todense(A)
            offd = Ad - np.diag(np.diag(Ad))
            rz = np.abs(offd).sum(axis=1) == 0
            cz = np.abs(offd).sum(axis=0) == 0
            if np.any(rz & cz):
                probe("decoupled_dofs")
            if np.any(rz & ~cz):
                probe("rows_only_decoupled")
            if np.any(cz & ~rz):
                probe("cols_only_decoupled")
            res["trace"].append(f"U{w}:{op['pattern'] if isinstance(op['pattern'], str) else 'bits'}")
            continue

        # ---- solve
        if W[w] is None or m["A"] is None:
            res["trace"].append("S-skip")
            continue
        wrapper, counter = W[w]
        A = m["A"]
        trans = op["trans"]
        cplx_ok = not (case["sparse"] is not None and not case["cplx"])
        b, kind = build_rhs(op, n, m["hist"][trans], cplx_ok)
        b = np.array(b)  # own copy
        lay = op["seed"] % 5          # memory layout of the right-hand side (same values)
        if lay == 1 and b.ndim == 2:
            b = np.asfortranarray(b)
            probe("rhs_fortran_order")
        elif lay == 2:
            b = np.repeat(b, 2, axis=0)[::2]
            probe("rhs_strided_view")
        bcols = b.reshape(n, -1)
        x0 = None
        if op["x0"] == "prev" and m["prev_x"] is not None and m["prev_x"].shape == b.shape:
            x0 = m["prev_x"].copy()
        elif op["x0"] == "rand":
            # a wrong initial guess of the right magnitude, column by column (an O(1) guess for a solution of magnitude
            # 1e-15 costs an iterative inner solver 15 digits before it starts: a conditioning artefact, not the wrapper's)
            xe = np.linalg.solve(G.opmat(A, trans), b.reshape(n, -1))
            mag = np.max(np.abs(xe), axis=0, keepdims=True)
            x0 = (xe + mag * G.rand_vec(op["seed"] + 1, xe.shape, np.iscomplexobj(xe))).reshape(b.shape)
        if x0 is not None and np.iscomplexobj(x0) and not (case["cplx"] or np.iscomplexobj(b)):
            x0 = np.ascontiguousarray(x0.real)          # a real system gets a real initial guess
        if x0 is not None and op["x0"] == "prev":
            # an initial guess that is many orders of magnitude larger than the solution (previous answer of a differently scaled
            # column) limits what an iterative inner solver can reach (eps*|A||x0|/|b|): conditioning artefact -> not passed
            xe_ = np.linalg.solve(G.opmat(A, trans), b.reshape(n, -1))
            if np.any(np.max(np.abs(x0.reshape(n, -1)), axis=0) > 1e3 * np.max(np.abs(xe_), axis=0)):
                x0 = None
                res["skipped"]["x0_prev_wrong_magnitude"] = res["skipped"].get("x0_prev_wrong_magnitude", 0) + 1
        if x0 is not None and any(len(h) for h in m["hist"].values()):
            probe("x0_nonempty_db")

        # model: which columns lie in the span answered before with the same trans (since the last update)?
        hist = m["hist"][trans]
        homogeneous = case["cplx"] or np.iscomplexobj(b) or not m["cplx_seen"]
        rank_ok = len(hist) <= max(1, n // 2)   # keep span membership far from borderline
        col_in_span = [G.in_span(hist, bcols[:, j]) if np.linalg.norm(bcols[:, j]) > 0 else True
                       for j in range(bcols.shape[1])]
        b_before = b.copy()
        c0, k0 = counter.solve_calls, counter.solve_cols
        f0 = seams.state["chol_forced"] + seams.state["chol_natural"]
        try:
            x = wrapper.solve(b, x0=x0, trans=trans)
        except Exception as e:  # noqa
            try:
                fw, _ = make_wrapper(case)
                fw.update(A)
                fw.solve(b_before.copy(), x0=None if x0 is None else x0.copy(), trans=trans)
                viol("exception", f"solve(kind={kind}, trans={trans}, x0={op['x0']}) raised {type(e).__name__}: "
                     f"{str(e)[:160]} -- the same call on a fresh wrapper succeeds", at,
                     feats=[f"exc={type(e).__name__}"])
            except Exception:
                # transparency: would the *bare* inner solver answer this call?  (the wrapper must never turn a solvable call
                # into a failure; zero columns are excluded, the wrapper exists to shield iterative solvers from them)
                bare_ok = True
                try:
                    bare = make_inner(case["inner"], cg_tol=case.get("cg_tol", 1e-10))
                    bare.update(A)
                    x0c = None if x0 is None else np.asarray(x0).reshape(n, -1)
                    for j in range(bcols.shape[1]):
                        if np.linalg.norm(bcols[:, j]) == 0:
                            continue            # a zero column is answered by zero; shielding it is the wrapper's job
                        xb = bare.solve(bcols[:, j].copy(), x0=None if x0c is None else x0c[:, j].copy(), trans=trans)
                        if not (np.all(np.isfinite(xb)) and xb.shape == (n,)):
                            bare_ok = False
                except Exception:  # noqa
                    bare_ok = False
                if bare_ok:
                    viol("exception", f"solve(kind={kind}, trans={trans}, x0={op['x0']}) raised {type(e).__name__}: "
                         f"{str(e)[:160]} -- the bare inner solver answers the same call", at, feats=[f"exc={type(e).__name__}", "bare_solver_succeeds"])
                else:
                    probe("fresh_twin_also_raises")
                    res["skipped"]["solve_raises_on_fresh_too"] = res["skipped"].get("solve_raises_on_fresh_too", 0) + 1
            res["trace"].append(f"S{w}:{kind}:{trans}:EXC")
            break
        dcalls, dcols = counter.solve_calls - c0, counter.solve_cols - k0
        m["nsolves"] += 1

        # probes
        if kind == "zero":
            probe("zero_rhs")
        if kind == "zerocol":
            probe("zero_column")
        if kind == "depblock":
            probe("dependent_block")
        if kind == "scaledblock":
            probe("badly_scaled_block")
        sym, herm = flags_for(case["cls"], case["cplx"])
        if trans != "N" and not (sym or herm):
            probe("adjoint_storage")
        if (sym and trans == "H") or (not sym and trans == "T"):
            probe("conj_mode")
        if np.iscomplexobj(b) and not m["cplx_seen"] and m["nsolves"] > 1:
            probe("complex_after_real")
        if not np.iscomplexobj(b) and m["cplx_seen"]:
            probe("real_after_complex")

        # (1) transparency
        if not np.array_equal(b, b_before):
            viol("rhs-mutated", f"solve() modified the caller's right-hand side (kind={kind})", at)
        if not hasattr(x, "shape") or x.shape != b.shape:
            viol("shape", f"x.shape={getattr(x, 'shape', None)} but b.shape={b.shape}", at)
        else:
            if not case["cplx"] and not np.iscomplexobj(b) and np.iscomplexobj(x):
                viol("dtype", "complex answer for a real system", at)
            if not np.all(np.isfinite(x)):
                viol("residual", f"non-finite answer for kind={kind} trans={trans}", at, feats=[f"kind={kind}"])
            else:
                rr = G.rel_residual_cols(A, x, b, trans)
                worst = float(np.max(rr)) if rr.size else 0.0
                res["margins"]["residual_over_bound"] = max(res["margins"].get("residual_over_bound", 0.0), worst / bound)
                if worst > bound:
                    viol("residual", f"residual {worst:.3e} > {bound:.1e} for solve(kind={kind}, trans={trans}, "
                         f"x0={op['x0']}) on current matrix (n={n}, cls={case['cls']}, pattern history in trace)", at,
                         feats=[f"kind={kind}", f"trans={trans}"])
        # (2) reuse
        need_cols_max = sum(1 for j, ins in enumerate(col_in_span) if not ins)
        if not rank_ok:
            probe("reuse_not_judged_rank")
        elif homogeneous:
            probe("reuse_judged")
            if dcols > need_cols_max:
                viol("reuse", f"inner solver received {dcols} column(s) although only {need_cols_max} of the "
                     f"{bcols.shape[1]} right-hand side column(s) lie outside the span answered before "
                     f"(kind={kind}, trans={trans})", at, feats=[f"kind={kind}"])
        else:
            probe("reuse_not_judged_mixed_dtype")
        reused = dcols < sum(1 for j in range(bcols.shape[1]) if np.linalg.norm(bcols[:, j]) > 0)
        if reused and any(len(h) for h in m["hist"].values()):
            probe("reuse_hit")
            res["nontrivial"] = True
        if seams.state["chol_forced"] + seams.state["chol_natural"] > f0:
            probe("cholesky_fallback")

        # model update
        for j in range(bcols.shape[1]):
            if np.linalg.norm(bcols[:, j]) > 0 and len(hist) < 24:
                hist.append(bcols[:, j].copy())
        if np.iscomplexobj(b):
            m["cplx_seen"] = True
        if hasattr(x, "shape"):
            m["prev_x"] = np.array(x)
            detail.append(float(np.sum(np.abs(x))))
        res["trace"].append(f"S{w}:{kind}:{trans}:{'c' if np.iscomplexobj(b) else 'r'}{bcols.shape[1] if b.ndim > 1 else 0}:"
                            f"{'x0' if x0 is not None else '-'}:{'reuse' if reused else 'inner'}")
        if res["violations"]:
            break

    fk = res["faults"]
    fk["cholesky_fail_forced"] = seams.state["chol_forced"]
    fk["cholesky_fail_natural"] = seams.state["chol_natural"]
    fk["inexact_inner_solver"] = 1 if case["inner"] == "cg" else 0
    res["detail"] = repr(detail)
    return res
