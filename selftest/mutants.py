#!/usr/bin/env python3
"""Sensitivity self-test: applies each /verif/mutants/<ID>-*.patch (and /verif/seeded/*/patch.diff) to a scratch copy
of /repo under /tmp, runs the matching check against the copy (VERIF_REPO) and expects exit code 1.
usage: selftest/mutants.py [C06 ...] [--tier quick] [--seeded]
"""
import glob
import json
import os
import shutil
import subprocess
import sys
import tempfile

ROOT = os.path.dirname(os.path.dirname(os.path.abspath(__file__)))
REPO = os.environ.get("VERIF_REPO", "/repo")


def scratch_copy():
    td = tempfile.mkdtemp(prefix="verif-mut-", dir="/tmp")
    dst = os.path.join(td, "repo")
    subprocess.run(["rsync", "-a", "--exclude", ".git", "--exclude", "build", "--exclude", "__pycache__",
                    "--exclude", "docs", "--exclude", "examples", REPO + "/", dst + "/"], check=True)
    return td, dst


def main():
    ids = [a.upper() for a in sys.argv[1:] if not a.startswith("--")]
    tier = "quick"
    runs = None
    for i, a in enumerate(sys.argv):
        if a == "--tier":
            tier = sys.argv[i + 1]
        if a == "--runs":
            runs = sys.argv[i + 1]
    ids = [i for i in ids if i not in ("QUICK", "THOROUGH") and not i.isdigit()]
    items = []
    for p in sorted(glob.glob(os.path.join(ROOT, "mutants", "*.patch"))):
        pid = os.path.basename(p).split("-")[0].upper()
        items.append((pid, p, os.path.basename(p)))
    for p in sorted(glob.glob(os.path.join(ROOT, "seeded", "*", "patch.diff"))):
        meta = json.load(open(os.path.join(os.path.dirname(p), "meta.json")))
        for pid in meta.get("detected_by", [meta["property"]]):
            items.append((pid.upper(), p, "seeded/" + os.path.basename(os.path.dirname(p))))
    if ids:
        items = [it for it in items if it[0] in ids]
    missed = 0
    for pid, patch, name in items:
        td, dst = scratch_copy()
        try:
            ap = subprocess.run(["patch", "-p1", "-s", "-d", dst, "-i", patch], capture_output=True, text=True)
            if ap.returncode != 0:
                print(f"{pid} {name}: PATCH DOES NOT APPLY\n{ap.stdout}{ap.stderr}")
                missed += 1
                continue
            env = dict(os.environ, VERIF_REPO=dst, VERIF_SHRINK_S="5")
            cmd = [os.path.join(ROOT, "bin", "check"), pid, "--tier", tier, "--no-evidence"]
            if runs:
                cmd += ["--runs", runs]
            elif tier == "thorough":
                cmd += ["--budget", os.environ.get("VERIF_MUT_BUDGET", "120")]
            p = subprocess.run(cmd, env=env, capture_output=True, text=True)
            vl = [l for l in p.stdout.splitlines() if l.startswith("VIOLATION") or l.startswith("  class=")]
            status = "CAUGHT" if p.returncode == 1 else f"MISSED (rc={p.returncode})"
            print(f"{pid} {name}: {status}  {vl[0][:150] if vl else ''}")
            if p.returncode != 1:
                missed += 1
                print("\n".join(p.stdout.splitlines()[-5:]))
        finally:
            shutil.rmtree(td, ignore_errors=True)
    sys.exit(1 if missed else 0)


if __name__ == "__main__":
    main()
