#!/bin/bash
# False-alarm self-test: every ready check, quick tier, several VERIF_SEED values, on the unchanged tree. Must all exit 0.
cd "$(dirname "$0")/.."
SEEDS="${*:-1 2 3 4 5}"
bad=0
for id in $(cat tools/ready.txt); do
  for s in $SEEDS; do
    out=$(VERIF_SEED=$s timeout 1500 bin/check "$id" --tier quick --no-evidence 2>&1); rc=$?
    if [ $rc != 0 ]; then bad=1; echo "ALARM $id seed=$s rc=$rc"; echo "$out" | grep -E "class=|VIOLATION|HARNESS" | head -4 | cut -c1-300; else echo "ok $id seed=$s"; fi
  done
done
exit $bad
