#!/usr/bin/env python3
"""Determinism self-test: the same VERIF_SEED must give identical per-run digests (abstract trace + numeric detail)
in fresh interpreters, under two PYTHONHASHSEED values and two worker counts.
usage: selftest/determinism.py C06 [C15 ...] [--runs 400] [--seeds 0,1]
"""
import os
import subprocess
import sys
import tempfile

ROOT = os.path.dirname(os.path.dirname(os.path.abspath(__file__)))


def run(pid, seed, hashseed, workers, runs, out):
    env = dict(os.environ, VERIF_SEED=str(seed), PYTHONHASHSEED=str(hashseed))
    p = subprocess.run([os.path.join(ROOT, "bin", "check"), pid, "--runs", str(runs), "--workers", str(workers),
                        "--digests", out, "--no-evidence"], env=env, capture_output=True, text=True)
    return p.returncode


def main():
    args = [a for a in sys.argv[1:] if not a.startswith("--")]
    runs = 400
    seeds = [0, 1]
    for i, a in enumerate(sys.argv):
        if a == "--runs":
            runs = int(sys.argv[i + 1])
        if a == "--seeds":
            seeds = [int(s) for s in sys.argv[i + 1].split(",")]
    args = [a for a in args if not a.isdigit() and "," not in a]
    bad = 0
    for pid in args:
        for seed in seeds:
            with tempfile.TemporaryDirectory() as td:
                fa, fb, fc = (os.path.join(td, n) for n in "abc")
                ra = run(pid, seed, 0, 16, runs, fa)
                rb = run(pid, seed, 12345, 3, runs, fb)
                rc = run(pid, seed, 0, 1, min(runs, 100), fc)
                A, B = open(fa).read().splitlines(), open(fb).read().splitlines()
                C = open(fc).read().splitlines()
                diff = [(x, y) for x, y in zip(A, B) if x != y]
                dA = dict(l.split() for l in A)
                diffc = [(l, dA.get(l.split()[0])) for l in C if dA.get(l.split()[0]) != l.split()[1]]
                ok = (len(A) == len(B) and not diff and not diffc and ra == rb)
                print(f"{pid} seed={seed}: {len(A)} runs, rc=({ra},{rb},{rc}) "
                      f"hashseed/worker diff={len(diff)} single-worker diff={len(diffc)} -> {'OK' if ok else 'NONDETERMINISTIC'}")
                if not ok:
                    bad += 1
                    for d in (diff + diffc)[:5]:
                        print("   ", d)
    sys.exit(1 if bad else 0)


if __name__ == "__main__":
    main()
