"""bin/check entry point (see bin/check for the exit-code contract)"""
import argparse
import os
import sys

ROOT = os.environ.get("VERIF_ROOT", os.path.dirname(os.path.dirname(os.path.abspath(__file__))))
sys.path.insert(0, ROOT)
sys.dont_write_bytecode = True

from sim import core  # noqa: E402


def main():
    ap = argparse.ArgumentParser()
    ap.add_argument("pid")
    ap.add_argument("--tier", default=os.environ.get("VERIF_TIER", "quick"), choices=["quick", "thorough"])
    ap.add_argument("--replay")
    ap.add_argument("--json", action="store_true")
    ap.add_argument("--runs", type=int)
    ap.add_argument("--workers", type=int)
    ap.add_argument("--budget", type=float)
    ap.add_argument("--digests", help="write per-run trace digests to this file (determinism self-test)")
    ap.add_argument("--no-evidence", action="store_true")
    a = ap.parse_args()
    pid = a.pid.upper()
    seed = int(os.environ.get("VERIF_SEED", "0"))

    if a.replay:
        sys.exit(core.do_replay(pid, a.replay, as_json=a.json))

    print(f"[check] property={pid} tier={a.tier} VERIF_SEED={seed} repo={core.REPO}", flush=True)
    if a.digests:
        os.environ["VERIF_DIGESTS"] = a.digests
    mod, cfg, agg, wall, broken, workers = core.run_batch(pid, a.tier, seed, runs=a.runs, workers=a.workers,
                                                          budget_s=a.budget)
    lines, rc, n_viol, details = core.decide(pid, a.tier, seed, mod, agg, broken)
    if agg["harness_errors"] and rc == 0:
        idx, tb = agg["harness_errors"][0]
        print(f"HARNESS-ERROR property={pid} {len(agg['harness_errors'])} run(s) raised inside the harness; first idx={idx}\n{tb}")
        rc = 2
    if rc == 0 and agg["evals"] > 0 and agg["timeouts"] > max(2, 0.02 * agg["evals"]):
        print(f"HARNESS-ERROR property={pid} {agg['timeouts']} of {agg['evals']} runs hit the per-run wall cap")
        rc = 2
    for ln in lines:
        print(ln)
    if not a.no_evidence:
        path = core.write_evidence(pid, a.tier, seed, mod, cfg, agg, wall, workers, n_viol, details)
    else:
        path = "(not written)"
    print(f"[check] {pid}: runs={agg['evals']} distinct_nontrivial={len(agg['traces'])} steps={agg['steps']} "
          f"timeouts={agg['timeouts']} wall={wall:.1f}s rc={rc} evidence={path}", flush=True)
    if a.digests:
        with open(a.digests, "w") as f:
            for k in sorted(agg["digests"]):
                f.write(f"{k[0]}{k[1]} {agg['digests'][k]}\n")
    sys.exit(rc)


if __name__ == "__main__":
    main()
