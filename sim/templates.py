"""Network templates for C03: long-lived networks of real caching library modules, built from a JSON config.

build(pym, cfg) -> dict(net, sources=[(signal, setter(seed))], sigs=[all signals in fixed order], seedable=[indices into sigs],
                        tol, eig=(lam_signal, Q_signal, n_modes) or None, name)
"""
import numpy as np
import scipy.sparse as sps

from .core import sub_rng

TEMPLATES = ["T1", "T1", "T2", "T3", "T4", "T4", "T5", "T6", "T7", "T8"]
_H = {}


def harness(pym):
    if _H.get("pym") is pym:
        return _H
    Module = pym.Module

    class SIMP(Module):
        def _prepare(self, xmin=0.1, p=3.0):
            self.xmin, self.p = xmin, p

        def _response(self, x):
            return self.xmin + (1 - self.xmin) * x ** self.p

        def _sensitivity(self, dy):
            x = self.sig_in[0].state
            return dy * (1 - self.xmin) * self.p * x ** (self.p - 1)

    class Densify(Module):
        def _response(self, A):
            return A.toarray()

        def _sensitivity(self, dA):
            return dA

    class DynStiff(Module):
        """ Z = (1 + i*omega*c) K - omega^2 M   (complex symmetric sparse) """
        def _prepare(self, omega=0.3, c=0.2):
            self.omega, self.c = omega, c

        def _response(self, K, M):
            return ((1 + 1j * self.omega * self.c) * K - self.omega ** 2 * M).tocsc()

        def _sensitivity(self, dZ):
            dK = ((1 + 1j * self.omega * self.c) * dZ).real
            dM = (-self.omega ** 2) * dZ.real
            return dK, dM

    class VonMises(Module):
        def _response(self, s):
            self.s = s
            self.vm = np.sqrt(s[0] ** 2 + s[1] ** 2 - s[0] * s[1] + 3 * s[2] ** 2 + 1e-12)
            return self.vm

        def _sensitivity(self, dv):
            s, vm = self.s, self.vm
            ds = np.zeros_like(s)
            ds[0] = dv * (2 * s[0] - s[1]) / (2 * vm)
            ds[1] = dv * (2 * s[1] - s[0]) / (2 * vm)
            ds[2] = dv * (6 * s[2]) / (2 * vm)
            return ds

    class Scale(Module):
        def _prepare(self, a=1.0, b=0.0):
            self.a, self.b = a, b

        def _response(self, x):
            return self.a * x + self.b

        def _sensitivity(self, dy):
            return self.a * dy

    _H.update(pym=pym, SIMP=SIMP, Densify=Densify, DynStiff=DynStiff, VonMises=VonMises, Scale=Scale)
    return _H


def gen_cfg(rng, template=None):
    t = template or str(rng.choice(TEMPLATES))
    cfg = dict(t=t, nx=int(rng.choice([2, 3, 4, 6])), ny=int(rng.choice([2, 3, 4])), dim=2,
               filt=str(rng.choice(["conv", "density", "none"])), radius=float(rng.choice([1.2, 1.6, 2.1])),
               overhang=bool(rng.random() < 0.3), odir=str(rng.choice(["+y", "+x", "y+"])),
               solver=str(rng.choice(["auto", "auto", "splu", "cg_jacobi", "cg_sor", "cg_ilu", "cg_gmg", "dense_auto", "dense_auto", "dense_lu", "dense_ldl"])),
               lda=bool(rng.random() < 0.8), dep_tol=float(rng.choice([1e-5, 1e-7, 1e-9])), nload=int(rng.choice([1, 1, 2, 3])),
               print_timing=[False, False, True, 0.0][int(rng.integers(0, 4))], keep_alloc=bool(rng.random() < 0.2),
               nmodes=int(rng.choice([1, 2, 3, 3])), sigma=[None, None, -0.05][int(rng.integers(0, 3))], seedQ=bool(rng.random() < 0.7),
               agg=str(rng.choice(["PNorm", "KSFunction", "SoftMinMax"])), aggpar=float(rng.choice([4.0, 8.0, -6.0])),
               active=bool(rng.random() < 0.4), scaling=bool(rng.random() < 0.6), p=float(rng.choice([1.0, 3.0])),
               omega=float(rng.choice([0.1, 0.3])), oseed=int(rng.integers(1 << 30)), void=bool(rng.random() < 0.35))
    if rng.random() < 0.15 and t in ("T1",):
        cfg.update(dim=3, nx=2, ny=2, nz=2)
    if cfg["solver"] == "cg_gmg":
        cfg.update(nx=4 if cfg["nx"] % 2 else cfg["nx"], ny=2 if cfg["ny"] % 2 else cfg["ny"])
        if cfg["nx"] % 2:
            cfg["nx"] = 4
    if t == "T4":
        cfg.update(nx=max(cfg["nx"], 4), ny=max(cfg["ny"], 3))
    return cfg


def _solver_kw(pym, cfg, dom):
    S = pym.solvers
    sol = cfg["solver"]
    kw = dict(dep_tol=cfg["dep_tol"])
    dense = sol.startswith("dense")
    tol = 1e-6
    if sol == "splu":
        kw["solver"] = S.SolverSparseLU()
    elif sol == "cg_jacobi":
        kw["solver"] = S.CG(tol=1e-11, maxit=4000, preconditioner=S.DampedJacobi(w=0.8))
    elif sol == "cg_sor":
        kw["solver"] = S.CG(tol=1e-11, maxit=4000, preconditioner=S.SOR(w=1.0))
    elif sol == "cg_ilu":
        kw["solver"] = S.CG(tol=1e-11, maxit=4000, preconditioner=S.ILU())
    elif sol == "cg_gmg":
        kw["solver"] = S.CG(tol=1e-11, maxit=4000, preconditioner=S.GeometricMultigrid(dom))
    elif sol == "dense_lu":
        kw["solver"] = S.SolverDenseLU()
    elif sol == "dense_ldl":
        kw["solver"] = S.SolverDenseLDL()
    return kw, dense, tol


def build(pym, cfg):
    H = harness(pym)
    S = pym.Signal
    t = cfg["t"]
    nz = cfg.get("nz", 0) if cfg["dim"] == 3 else 0
    dom = pym.DomainDefinition(cfg["nx"], cfg["ny"], nz)
    rng = sub_rng(0x300, cfg["oseed"])
    nel, nn = dom.nel, dom.nnodes
    ndof = dom.dim
    mods, sigs, sources, seedable = [], [], [], []
    out = dict(name=t, eig=None, tol=1e-6)

    def sig(tag, **kw):
        s = S(tag, **kw)
        sigs.append(s)
        return s

    # --- design source + filters (shared front end)
    x = sig("x", sensitivity=np.zeros(nel)) if cfg["keep_alloc"] else sig("x")
    # "void" variant (T1 without filters): some designs have a 2x2 patch of exactly-zero elements, so the node in its middle is
    # decoupled in that design (grounded by a small constant diagonal) and coupled again in the next one
    void = bool(cfg.get("void")) and t == "T1" and cfg["filt"] == "none" and not cfg["overhang"] and dom.dim == 2 \
        and not cfg["solver"].startswith("dense") and nel > 4
    # (nel > 4: on a 2x2 mesh the patch is the whole design, K would be *diagonal* and LinSolve -- which chooses its solver from the
    # first matrix it sees, by design -- would keep SolverDiagonal for the general matrices that follow: the matrix class of a
    # LinSolve instance is fixed, see DESIGN 10.4 "non-generic first matrix")

    def xset(seed):
        v = sub_rng(0x301, seed).uniform(0.3, 1.0, nel)
        if void and seed % 3 == 0:
            i, j = (seed // 3) % (dom.nelx - 1), (seed // 7) % (dom.nely - 1)
            v[dom.elements[i:i + 2, j:j + 2, 0].flatten()] = 0.0
        return v
    sources.append((x, xset))
    cur = x
    if cfg["filt"] == "conv":
        y = sig("xf")
        mods.append(pym.FilterConv(cur, y, dom, radius=cfg["radius"], ymax_bc=0.0 if cfg["oseed"] % 2 else "symmetric"))
        cur = y
    elif cfg["filt"] == "density":
        y = sig("xf")
        mods.append(pym.DensityFilter(cur, y, dom, radius=cfg["radius"]))
        cur = y
    if cfg["overhang"] and dom.dim == 2 and t in ("T1", "T5"):
        y = sig("xp")
        mods.append(pym.OverhangFilter(cur, y, dom, direction=cfg["odir"]))
        cur = y
    e = sig("E")
    mods.append(H["SIMP"](cur, e, xmin=0.0 if void else 0.1, p=cfg["p"]))
    left = dom.nodes[0, ...].flatten()
    bc = np.sort(np.concatenate([left * ndof + d for d in range(ndof)]))
    right = dom.nodes[-1, ...].flatten()

    def load_setter(n, k):
        shape = (n,) if k == 1 else (n, k)

        def f(seed):
            v = sub_rng(0x302, seed).uniform(-1, 1, shape)
            if k == 1:
                v[bc] = 0
            else:
                v[bc, :] = 0
            return v
        return f

    kw, dense, tol = _solver_kw(pym, cfg, dom)
    out["tol"] = tol

    if t in ("T1", "T5"):
        K = sig("K")
        if void:
            mods.append(pym.AssembleStiffness(e, K, dom, bc=bc, add_constant=sps.identity(nn * ndof, format="csc") * 0.05))
        else:
            mods.append(pym.AssembleStiffness(e, K, dom, bc=bc))
        Kin = K
        if dense:
            Kd = sig("Kd")
            mods.append(H["Densify"](K, Kd))
            Kin = Kd
        f = sig("f")
        sources.append((f, load_setter(nn * ndof, cfg["nload"])))
        u = sig("u")
        ls = pym.LinSolve([Kin, f], u, **kw)
        if not cfg["lda"]:
            ls.use_lda_solver = False
        mods.append(ls)
        if t == "T1":
            c = sig("c")
            mods.append(pym.EinSum([u, f], c, expression="i,i->" if cfg["nload"] == 1 else "ij,ij->"))
            seedable += [sigs.index(c), sigs.index(u)]
        else:
            if cfg["nload"] != 1:
                u = u[:, 0]          # first load case through a SignalSlice (not added to the compared signal list)
            s = sig("s")
            mods.append(pym.Stress(u, s, dom))
            vm = sig("vm")
            mods.append(H["VonMises"](s, vm))
            g = sig("g")
            akw = {}
            if cfg["scaling"]:
                akw["scaling"] = pym.AggScaling("max" if cfg["aggpar"] > 0 else "min", damping=0.0)
            if cfg["active"]:
                ak = cfg["oseed"] % 3       # value band + amount / amount only / value band only
                if cfg["aggpar"] > 0:
                    akw["active_set"] = [pym.AggActiveSet(lower_rel=0.1, lower_amt=0.1), pym.AggActiveSet(lower_amt=0.25),
                                         pym.AggActiveSet(lower_rel=0.15)][ak]
                else:
                    akw["active_set"] = [pym.AggActiveSet(upper_rel=0.9, upper_amt=0.9), pym.AggActiveSet(upper_amt=0.75),
                                         pym.AggActiveSet(upper_rel=0.85)][ak]
            vms = sig("vms")
            mods.append(H["Scale"](vm, vms, a=0.02, b=0.5))     # keeps rho*x far from the overflow range of exp()
            if cfg["agg"] == "PNorm":
                mods.append(pym.PNorm(vms, g, p=cfg["aggpar"], **akw))
            elif cfg["agg"] == "KSFunction":
                mods.append(pym.KSFunction(vms, g, rho=cfg["aggpar"], **akw))
            else:
                mods.append(pym.SoftMinMax(vms, g, alpha=cfg["aggpar"], **akw))
            gc = sig("gc")
            mods.append(pym.Scaling(g, gc, scaling=10.0, maxval=2.0))
            seedable += [sigs.index(gc), sigs.index(vm)]
    elif t == "T2":
        K = sig("K")
        mods.append(pym.AssembleStiffness(e, K, dom))        # no bc: prescribed dofs handled by the partition
        n = nn * ndof
        p = bc
        fdofs = np.setdiff1d(np.arange(n), p)
        k = cfg["nload"]
        bf, xp = sig("bf"), sig("xp_")
        sources.append((bf, lambda seed: sub_rng(0x303, seed).uniform(-1, 1, (len(fdofs),) if k == 1 else (len(fdofs), k))))
        sources.append((xp, lambda seed: 0.1 * sub_rng(0x304, seed).uniform(-1, 1, (len(p),) if k == 1 else (len(p), k))))
        uu, bb = sig("u"), sig("b")
        kw2 = {k_: v for k_, v in kw.items() if k_ != "solver" or not dense}
        if dense:
            kw2.pop("solver", None)
        mod = pym.SystemOfEquations([K, bf, xp], [uu, bb], prescribed=p, **kw2)
        if not cfg["lda"]:
            mod.module_LinSolve.use_lda_solver = False
        mods.append(mod)
        c = sig("c")
        mods.append(pym.EinSum([uu, bb], c, expression="i,i->" if k == 1 else "ij,ij->"))
        seedable += [sigs.index(c), sigs.index(uu), sigs.index(bb)]
    elif t == "T3":
        K = sig("K")
        mods.append(pym.AssembleStiffness(e, K, dom, bc=bc))
        n = nn * ndof
        main = np.sort(np.concatenate([right * ndof + d for d in range(ndof)]))[:4]
        free = np.setdiff1d(np.setdiff1d(np.arange(n), bc), main)
        R = sig("Kred")
        kw3 = {k_: v for k_, v in kw.items() if k_ != "dep_tol"}
        if dense or cfg["solver"].startswith("cg"):
            kw3.pop("solver", None)
        mods.append(pym.StaticCondensation(K, R, main=main, free=free, **kw3))
        seedable += [sigs.index(R)]
    elif t == "T4":
        K, M = sig("K"), sig("M")
        mods.append(pym.AssembleStiffness(e, K, dom, bc=bc))
        mods.append(pym.AssembleMass(e, M, dom, bc=bc, ndof=ndof, bcdiagval=0.0))
        lam, Q = sig("lam"), sig("Q")
        ekw = dict(nmodes=cfg["nmodes"], hermitian=True)
        if cfg["sigma"] is not None:
            ekw["sigma"] = cfg["sigma"]
        mods.append(pym.EigenSolve([K, M], [lam, Q], **ekw))
        out["eig"] = (sigs.index(lam), sigs.index(Q))
        out["tol"] = 1e-6
        seedable += [sigs.index(lam)] + ([sigs.index(Q)] if cfg["seedQ"] else [])
    elif t == "T6":
        K, M = sig("K"), sig("M")
        mods.append(pym.AssembleStiffness(e, K, dom, bc=bc))
        mods.append(pym.AssembleMass(e, M, dom, bc=bc, ndof=ndof, bcdiagval=0.0))
        Z = sig("Z")
        mods.append(H["DynStiff"]([K, M], Z, omega=cfg["omega"], c=0.2))
        f = sig("f")
        sources.append((f, load_setter(nn * ndof, 1)))
        u = sig("u")
        kw6 = {"dep_tol": cfg["dep_tol"]}
        ls = pym.LinSolve([Z, f], u, **kw6)
        if not cfg["lda"]:
            ls.use_lda_solver = False
        mods.append(ls)
        a, re, im = sig("amp"), sig("re"), sig("im")
        uo = sig("uo")      # offset: the complex norm is not differentiable at the clamped dofs (u = 0)
        mods.append(H["Scale"](u, uo, a=1.0, b=1.0 + 0.5j))
        mods.append(pym.ComplexNorm(uo, a))
        mods.append(pym.RealPart(u, re))
        mods.append(pym.ImagPart(u, im))
        z2 = sig("z2")
        mods.append(pym.MakeComplex([re, im], z2))
        c = sig("c")
        mods.append(pym.EinSum([a, a], c, expression="i,i->"))
        seedable += [sigs.index(c), sigs.index(z2), sigs.index(a)]
    elif t == "T8":
        # dense chain: stiffness -> dense -> Inverse -> trace;  dense EigenSolve (full spectrum);  ConcatSignal of both
        K = sig("K")
        # no clamped dofs (they would give repeated eigenvalues, for which eigenvector sensitivities are documented as not
        # implemented); grounded by distinct springs instead
        nfull = nn * ndof
        mods.append(pym.AssembleStiffness(e, K, dom, add_constant=sps.diags(0.2 + 0.05 * np.arange(nfull), format="csc")))
        Kd = sig("Kd")
        mods.append(H["Densify"](K, Kd))
        Ki = sig("Kinv")
        mods.append(pym.Inverse(Kd, Ki))
        tr = sig("tr")
        mods.append(pym.EinSum([Ki], tr, expression="ii->"))
        lam, Q = sig("lam"), sig("Q")
        mods.append(pym.EigenSolve([Kd], [lam, Q], hermitian=True if cfg["oseed"] % 2 else None))
        out["eig"] = (sigs.index(lam), sigs.index(Q))
        trv = sig("trv")
        mods.append(H["Scale"](tr, trv, a=1.0, b=0.0))
        cc = sig("cc")
        mods.append(pym.ConcatSignal([lam, lam[0:2]], cc))
        g = sig("g")
        mods.append(pym.EinSum([cc, cc], g, expression="i,i->"))
        gc = sig("gc")
        mods.append(pym.Scaling(g, gc, scaling=10.0, minval=0.5))
        seedable += [sigs.index(gc), sigs.index(trv), sigs.index(lam)] + ([sigs.index(Q)] if cfg["seedQ"] else [])
    elif t == "T7":
        P = sig("P")
        tb = np.sort(left)
        mods.append(pym.AssemblePoisson(e, P, dom, bc=tb))
        q = sig("q")

        def qset(seed):
            v = sub_rng(0x305, seed).uniform(0, 1, nn)
            v[tb] = 0
            return v
        sources.append((q, qset))
        T = sig("T")
        l1 = pym.LinSolve([P, q], T, dep_tol=cfg["dep_tol"])
        mods.append(l1)
        Te = sig("Te")
        mods.append(pym.ElementAverage(T, Te, dom))
        xT = sig("xT")
        mods.append(pym.EinSum([e, Te], xT, expression="i,i->i"))
        fth = sig("fth")
        mods.append(pym.ThermoMechanical(xT, fth, dom, alpha=1e-2))
        K = sig("K")
        mods.append(pym.AssembleStiffness(e, K, dom, bc=bc))
        u = sig("u")
        l2 = pym.LinSolve([K, fth], u, **{k_: v for k_, v in kw.items() if not dense})
        if not cfg["lda"]:
            l1.use_lda_solver = False
            l2.use_lda_solver = False
        mods.append(l2)
        c = sig("c")
        mods.append(pym.EinSum([u, u], c, expression="i,i->"))
        seedable += [sigs.index(c), sigs.index(u), sigs.index(T)]
    else:
        raise ValueError(t)
    net = pym.Network(mods, print_timing=cfg["print_timing"])
    out.update(net=net, sources=sources, sigs=sigs, seedable=seedable, mods=mods)
    return out
