"""Module zoo: every public non-I/O pyMOTO module runnable in this sandbox, built from a JSON config with seeded
options and seeded *admissible* inputs.  Used by C04 (one module at a time) and C03 (as building blocks).

entry = build(pym, cfg) -> dict(mod, ins=[Signal], outs=[Signal], set_inputs(seed), make_seeds(seed)->[w per output],
                                lin_tol, iterative(bool), name)
"""
import numpy as np
import scipy.sparse as sps

from .core import sub_rng
from . import gen as G

KINDS = ["AssembleStiffness", "AssembleMass", "AssemblePoisson", "AssembleGeneral",
         "FilterConv", "DensityFilter", "OverhangFilter",
         "LinSolve", "Inverse", "SystemOfEquations", "StaticCondensation", "EigenSolveDense", "EigenSolveSparse",
         "MakeComplex", "RealPart", "ImagPart", "ComplexNorm",
         "PNorm", "KSFunction", "SoftMinMax", "Scaling", "EinSum", "ConcatSignal",
         "Strain", "Stress", "ElementAverage", "ElementOperation", "NodalOperation", "ThermoMechanical"]


def gen_cfg(rng, kind=None):
    """ draws a config (plain JSON) """
    kind = kind or str(rng.choice(KINDS))
    dim = 3 if rng.random() < 0.25 else 2
    if dim == 2:
        nx, ny, nz = int(rng.integers(2, 6)), int(rng.integers(2, 5)), 0
    else:
        nx, ny, nz = int(rng.integers(1, 4)), int(rng.integers(1, 4)), int(rng.integers(1, 3))
    cfg = dict(kind=kind, dim=dim, nx=nx, ny=ny, nz=nz,
               unit=[float(rng.choice([1.0, 0.5, 2.0])), float(rng.choice([1.0, 0.7])), float(rng.choice([1.0, 1.5]))],
               oseed=int(rng.integers(1 << 30)), layout=str(rng.choice(["C", "C", "C", "F", "T"])))
    r = lambda *a: rng.choice(*a)  # noqa
    if kind in ("AssembleStiffness", "AssembleMass", "AssemblePoisson", "AssembleGeneral"):
        cfg.update(bc=str(r(["none", "left", "corner", "random"])), bcdiag=[None, 1.0, 0.0][int(rng.integers(0, 3))],
                   plane=str(r(["strain", "stress"])), mtype=str(r(["csc", "csr"])), add_const=bool(rng.random() < 0.2),
                   ndof=int(r([1, 2])), wkind=str(r(["dyad", "dense", "dyad2"])))
    elif kind == "FilterConv":
        cfg.update(radius=float(r([0.8, 1.5, 2.0, 3.2])), weights=bool(rng.random() < 0.3), relative=bool(rng.random() < 0.7),
                   bcs=[str(r(["symmetric", "edge", "wrap", "0.0", "1.0"])) for _ in range(6)])
    elif kind == "DensityFilter":
        cfg.update(radius=float(r([1.0, 1.5, 2.5])), nonpadding=bool(rng.random() < 0.3))
    elif kind == "OverhangFilter":
        dirs2 = [[0, 1], [0, -1], [1, 0], [-1, 0], "+x", "y+", "+y"]
        dirs3 = [[0, 0, 1], [0, 0, -1], [0, 1, 0], [-1, 0, 0], "z+", "+x"]
        cfg.update(direction=(dirs2 if dim == 2 else dirs3)[int(rng.integers(0, 6))],
                   nsampling=(3 if dim == 2 else int(r([5, 9]))), p=float(r([10.0, 40.0])), eps=float(r([1e-4, 1e-2])),
                   xi0=float(r([0.5, 0.3])))
        if dim == 2:
            cfg.update(nx=max(nx, 2), ny=max(ny, 2))
        else:
            cfg.update(nx=max(nx, 2), ny=max(ny, 2), nz=max(nz, 2))
    elif kind in ("LinSolve", "Inverse", "SystemOfEquations", "StaticCondensation"):
        cplx = bool(rng.random() < 0.3)
        cls = str(r(G.CLASSES_CPLX if cplx else G.CLASSES_REAL))
        sparse = [None, "csc", "csr"][int(rng.integers(0, 3))]
        if kind == "Inverse":
            sparse = None
        if kind == "StaticCondensation":
            sparse = str(r(["csc", "csr"]))
            cplx, cls = False, str(r(["spd", "sym", "general"]))
        if kind == "SystemOfEquations":
            sparse = str(r(["csc", "csr"]))
            cplx, cls = False, str(r(["spd", "sym"]))
        cfg.update(n=int(rng.integers(3, 9)), cls=cls, cplx=cplx, sparse=sparse, k=int(r([0, 0, 1, 2, 3])),
                   pattern=str(r(["full", "full", "banded", "bothdec"])),   # (a freshly drawn 'random' mask per input could make the
                   # first matrix diagonal: the module then picks a diagonal solver for good -- construction-time contract)
                   cplx_rhs=bool(cplx and rng.random() < 0.6) or bool((not cplx) and sparse is None and rng.random() < 0.2),
                   solver=str(r(["auto", "auto", "auto", "explicit", "cg", "nolda"])),
                   flags=bool(rng.random() < 0.3), part=str(r(["free", "prescribed", "both"])))
    elif kind in ("EigenSolveDense", "EigenSolveSparse"):
        cfg.update(n=int(rng.integers(3, 8)), gen=bool(rng.random() < 0.5), cplx=bool(rng.random() < 0.2 and kind == "EigenSolveDense"),
                   herm=bool(rng.random() < 0.75), nmodes=int(rng.integers(1, 4)), sigma=float(r([0.0, 0.0, -0.5, 0.3])),
                   seedQ=bool(rng.random() < 0.6), seedW=bool(rng.random() < 0.8))
        if kind == "EigenSolveSparse":
            cfg.update(n=int(rng.integers(8, 14)), herm=True)
    elif kind in ("MakeComplex", "RealPart", "ImagPart", "ComplexNorm"):
        cfg.update(shape=[int(rng.integers(1, 6))] if rng.random() < 0.7 else [2, 3])
    elif kind in ("PNorm", "KSFunction", "SoftMinMax"):
        cfg.update(n=int(rng.integers(1, 13)), par=float(r([-8.0, -2.0, 2.0, 4.0, 12.0])),
                   scaling=[None, "min", "max"][int(rng.integers(0, 3))],
                   active=bool(rng.random() < 0.4), act=[float(rng.uniform(0, 0.3)), float(rng.uniform(0.7, 1.0)),
                                                         float(rng.uniform(0, 0.3)), float(rng.uniform(0.7, 1.0))])
    elif kind == "Scaling":
        cfg.update(mode=str(r(["objective", "min", "max"])), scaling=float(r([1.0, 100.0])), val=float(r([0.5, 2.0])),
                   vec=bool(rng.random() < 0.3))
    elif kind == "EinSum":
        cfg.update(expr=str(r(["i->", "i,i->i", "i,i->", "i,j->ij", "ii->", "ij,j->i", "i,ij,j->", "ij,ij->ij", "ji,jk,kl->il",
                               "ij->", "ij,jk->ik"])), n=int(rng.integers(2, 5)), m=int(rng.integers(2, 5)),
                   cplx=[bool(rng.random() < 0.25) for _ in range(3)])
    elif kind == "ConcatSignal":
        cfg.update(sizes=[int(s) for s in rng.integers(1, 5, size=int(rng.integers(1, 4)))])
    elif kind in ("Strain", "Stress", "ElementAverage", "ElementOperation", "NodalOperation", "ThermoMechanical"):
        cfg.update(voigt=bool(rng.random() < 0.5), plane=str(r(["strain", "stress"])), ndof=int(r([1, 2, 3])),
                   emshape=str(r(["vec", "mat", "dofs"])), block=bool(rng.random() < 0.3))
    return cfg


def _domain(pym, cfg):
    return pym.DomainDefinition(cfg["nx"], cfg["ny"], cfg["nz"], unitx=cfg["unit"][0], unity=cfg["unit"][1],
                                unitz=cfg["unit"][2])


def _bc(cfg, dom, ndof, rng):
    if cfg["bc"] == "none":
        return None
    if cfg["bc"] == "left":
        nodes = dom.nodes[0, ...].flatten()
        return np.sort(np.concatenate([nodes * ndof + d for d in range(ndof)]))
    if cfg["bc"] == "corner":
        return np.arange(ndof)
    k = int(rng.integers(1, max(2, dom.nnodes * ndof // 3)))
    return np.sort(rng.choice(dom.nnodes * ndof, size=k, replace=False))


def _randw(rng, shape, cplx=False):
    w = rng.uniform(-1, 1, shape)
    if cplx:
        w = w + 1j * rng.uniform(-1, 1, shape)
    return w


def build(pym, cfg):
    kind = cfg["kind"]
    S = pym.Signal
    rng0 = sub_rng(0x200, cfg["oseed"])
    E = dict(name=kind, lin_tol=1e-9, iterative=False, cfg=cfg)

    def finish(mod, ins, outs, set_inputs, make_seeds):
        lay = cfg.get("layout", "C")
        if lay != "C":
            # the caller's multi-dimensional arrays may be Fortran-ordered or transposed views (legal input of any module)
            inner = set_inputs

            def set_inputs(seed):
                r = inner(seed)
                for sg in ins:
                    st = sg.state
                    if isinstance(st, np.ndarray) and st.ndim >= 2 and st.size > 1:
                        sg.state = np.asfortranarray(st) if lay == "F" else np.ascontiguousarray(st.T).T
                return r
        E.update(mod=mod, ins=ins, outs=outs, set_inputs=set_inputs, make_seeds=make_seeds)
        return E

    # ---------------------------------------------------------------- assembly
    if kind in ("AssembleStiffness", "AssembleMass", "AssemblePoisson", "AssembleGeneral"):
        dom = _domain(pym, cfg)
        mtype = sps.csc_matrix if cfg["mtype"] == "csc" else sps.csr_matrix
        kw = dict(matrix_type=mtype)
        if kind == "AssembleStiffness":
            ndof = dom.dim
        elif kind == "AssemblePoisson":
            ndof = 1
        else:
            ndof = cfg["ndof"]
        bc = _bc(cfg, dom, ndof, rng0)
        if bc is not None:
            kw["bc"] = bc
            if cfg["bcdiag"] is not None:
                kw["bcdiagval"] = cfg["bcdiag"]
        n = dom.nnodes * ndof
        if cfg["add_const"]:
            kw["add_constant"] = sps.identity(n, format=cfg["mtype"]) * 0.5
        sx, sK = S("x"), S("K")
        if kind == "AssembleStiffness":
            mod = pym.AssembleStiffness(sx, sK, dom, plane=cfg["plane"], e_modulus=2.0, poisson_ratio=0.25, **kw)
        elif kind == "AssembleMass":
            mod = pym.AssembleMass(sx, sK, dom, ndof=ndof, material_property=1.3, **kw)
        elif kind == "AssemblePoisson":
            mod = pym.AssemblePoisson(sx, sK, dom, material_property=0.7, **kw)
        else:
            ne = dom.elemnodes * ndof
            em = rng0.uniform(-1, 1, (ne, ne))
            mod = pym.AssembleGeneral(sx, sK, dom, em, **kw)

        def set_inputs(seed):
            sx.state = sub_rng(0x201, seed).uniform(0.05, 1.0, dom.nel)

        def make_seeds(seed):
            r = sub_rng(0x202, seed)
            if cfg["wkind"] == "dense":
                return [r.uniform(-1, 1, (n, n))]
            nd = 1 if cfg["wkind"] == "dyad" else 2
            return [pym.DyadCarrier([r.uniform(-1, 1, n) for _ in range(nd)], [r.uniform(-1, 1, n) for _ in range(nd)])]
        return finish(mod, [sx], [sK], set_inputs, make_seeds)

    # ---------------------------------------------------------------- filters
    if kind in ("FilterConv", "DensityFilter", "OverhangFilter"):
        dom = _domain(pym, cfg)
        sx, sy = S("x"), S("y")
        if kind == "FilterConv":
            names = ["xmin_bc", "xmax_bc", "ymin_bc", "ymax_bc", "zmin_bc", "zmax_bc"]
            kw = {}
            for nm, b in zip(names, cfg["bcs"]):
                kw[nm] = float(b) if b in ("0.0", "1.0") else b
            # 'wrap' needs the padding not to exceed the domain; numpy handles it; keep the radius moderate
            if cfg["weights"]:
                shp = (3, 3) if dom.dim == 2 else (3, 3, 3)
                wts = rng0.uniform(0.1, 1.0, shp)
                mod = pym.FilterConv(sx, sy, dom, weights=wts, **kw)
            else:
                mod = pym.FilterConv(sx, sy, dom, radius=cfg["radius"], relative_units=cfg["relative"], **kw)
        elif kind == "DensityFilter":
            kw = {}
            if cfg["nonpadding"]:
                kw["nonpadding"] = rng0.choice(dom.nel, size=max(1, dom.nel // 2), replace=False)
            mod = pym.DensityFilter(sx, sy, dom, radius=cfg["radius"], **kw)
        else:
            mod = pym.OverhangFilter(sx, sy, dom, direction=cfg["direction"], nsampling=cfg["nsampling"], p=cfg["p"],
                                     eps=cfg["eps"], xi_0=cfg["xi0"])

        def set_inputs(seed):
            sx.state = sub_rng(0x201, seed).uniform(0.05, 1.0, dom.nel)

        def make_seeds(seed):
            return [sub_rng(0x202, seed).uniform(-1, 1, dom.nel)]
        return finish(mod, [sx], [sy], set_inputs, make_seeds)

    # ---------------------------------------------------------------- linear algebra
    if kind in ("LinSolve", "Inverse", "SystemOfEquations", "StaticCondensation"):
        n, cplx = cfg["n"], cfg["cplx"]
        mdesc = dict(n=n, cls=cfg["cls"], cplx=cplx, sparse=cfg["sparse"], pattern=cfg["pattern"])
        sA = S("A")
        solver_kw = {}
        if kind in ("LinSolve", "SystemOfEquations", "StaticCondensation"):
            sol = cfg["solver"]
            spd = cfg["cls"] in ("spd", "hpd")
            if sol == "explicit":
                solver_kw["solver"] = pym.solvers.SolverSparseLU() if cfg["sparse"] else pym.solvers.SolverDenseLU()
            elif sol == "cg" and spd:
                solver_kw["solver"] = pym.solvers.CG(tol=1e-11, maxit=3000, preconditioner=pym.solvers.Preconditioner())
                E["iterative"] = True
                E["lin_tol"] = 1e-6
            if cfg["flags"]:
                sym = cfg["cls"] in ("sym", "spd", "csym")
                herm = cfg["cls"] in ("herm", "hpd") or (not cplx and sym)
                solver_kw["symmetric"] = sym if (cplx or True) else None
                solver_kw["hermitian"] = herm
        if kind in ("LinSolve", "SystemOfEquations") and cfg["solver"] != "nolda":
            # the linear-dependency-aware wrapper answers a right-hand side from its database when the residual is below its
            # tolerance (1e-7 relative): results are linear in the seed only "to solver tolerance"
            E["lin_tol"] = max(E["lin_tol"], 1e-5)
        if kind == "LinSolve":
            sb, sx = S("b"), S("x")
            mod = pym.LinSolve([sA, sb], sx, **solver_kw)
            if cfg["solver"] == "nolda":
                mod.use_lda_solver = False      # instance attribute shadows the class attribute
            crhs = cfg["cplx_rhs"] and not (cfg["sparse"] and not cplx)
            shape = (n,) if cfg["k"] == 0 else (n, cfg["k"])

            def set_inputs(seed):
                sA.state = G.make_matrix(dict(mdesc, seed=seed))
                sb.state = G.rand_vec(seed + 1, shape, crhs)

            def make_seeds(seed):
                return [_randw(sub_rng(0x202, seed), shape, cplx or crhs)]
            return finish(mod, [sA, sb], [sx], set_inputs, make_seeds)
        if kind == "Inverse":
            sB = S("B")
            mod = pym.Inverse(sA, sB)

            def set_inputs(seed):
                sA.state = G.make_matrix(dict(mdesc, seed=seed))

            def make_seeds(seed):
                return [_randw(sub_rng(0x202, seed), (n, n), cplx)]
            return finish(mod, [sA], [sB], set_inputs, make_seeds)
        if kind == "SystemOfEquations":
            npres = max(1, n // 3)
            p = np.sort(rng0.choice(n, size=npres, replace=False))
            f = np.setdiff1d(np.arange(n), p)
            kw = dict(solver_kw)
            if cfg["part"] in ("free", "both"):
                kw["free"] = f
            if cfg["part"] in ("prescribed", "both"):
                kw["prescribed"] = p
            sbf, sxp, sx, sb = S("bf"), S("xp"), S("x"), S("b")
            mod = pym.SystemOfEquations([sA, sbf, sxp], [sx, sb], **kw)
            if cfg["solver"] == "nolda":
                mod.module_LinSolve.use_lda_solver = False
            k = cfg["k"]

            def set_inputs(seed):
                sA.state = G.make_matrix(dict(mdesc, seed=seed, pattern="full"))
                sbf.state = G.rand_vec(seed + 1, (len(f),) if k == 0 else (len(f), k))
                sxp.state = G.rand_vec(seed + 2, (len(p),) if k == 0 else (len(p), k))

            def make_seeds(seed):
                r = sub_rng(0x202, seed)
                shp = (n,) if k == 0 else (n, k)
                return [_randw(r, shp), _randw(r, shp)]
            return finish(mod, [sA, sbf, sxp], [sx, sb], set_inputs, make_seeds)
        if kind == "StaticCondensation":
            nm = max(1, n // 3)
            perm = rng0.permutation(n)
            main = np.sort(perm[:nm])
            free = np.sort(perm[nm:nm + max(1, (n - nm) * 2 // 3)])
            sR = S("Ared")
            kw = {k_: v for k_, v in solver_kw.items()}
            mod = pym.StaticCondensation(sA, sR, main=main, free=free, **kw)

            def set_inputs(seed):
                sA.state = G.make_matrix(dict(mdesc, seed=seed, pattern="full"))

            def make_seeds(seed):
                return [_randw(sub_rng(0x202, seed), (nm, nm))]
            return finish(mod, [sA], [sR], set_inputs, make_seeds)

    if kind in ("EigenSolveDense", "EigenSolveSparse"):
        n, cplx, herm = cfg["n"], cfg["cplx"], cfg["herm"]
        sparse = "csc" if kind == "EigenSolveSparse" else None
        cls = ("hpd" if cplx else "spd") if herm else "general"
        sA, sB, sW, sQ = S("A"), S("B"), S("lam"), S("Q")
        kw = {}
        if sparse:
            kw.update(nmodes=cfg["nmodes"], sigma=cfg["sigma"] if cfg["sigma"] != 0.0 else None)
        ins = [sA, sB] if cfg["gen"] else [sA]
        mod = pym.EigenSolve(ins, [sW, sQ], **kw)
        E["lin_tol"] = 1e-7

        def set_inputs(seed):
            A = G.make_matrix(dict(n=n, cls=cls, cplx=cplx, sparse=sparse, seed=seed, pattern="full"))
            sA.state = A
            if cfg["gen"]:
                sB.state = G.make_matrix(dict(n=n, cls="hpd" if cplx else "spd", cplx=cplx, sparse=sparse, seed=seed + 5,
                                              pattern="banded"))

        def make_seeds(seed):
            r = sub_rng(0x202, seed)
            W, Q = sW.state, sQ.state
            cw = np.iscomplexobj(W) or np.iscomplexobj(Q)
            dW = _randw(r, np.shape(W), np.iscomplexobj(W)) if cfg["seedW"] or not cfg["seedQ"] else None
            dQ = _randw(r, np.shape(Q), cw) if cfg["seedQ"] else None
            return [dW, dQ]
        return finish(mod, ins, [sW, sQ], set_inputs, make_seeds)

    # ---------------------------------------------------------------- complex
    if kind in ("MakeComplex", "RealPart", "ImagPart", "ComplexNorm"):
        shp = tuple(cfg["shape"])
        if kind == "MakeComplex":
            sx, sy, sz = S("x"), S("y"), S("z")
            mod = pym.MakeComplex([sx, sy], sz)

            def set_inputs(seed):
                r = sub_rng(0x201, seed)
                sx.state, sy.state = r.uniform(-1, 1, shp), r.uniform(-1, 1, shp)

            def make_seeds(seed):
                return [_randw(sub_rng(0x202, seed), shp, True)]
            return finish(mod, [sx, sy], [sz], set_inputs, make_seeds)
        sz, so = S("z"), S("o")
        mod = getattr(pym, kind)(sz, so)

        def set_inputs(seed):
            sz.state = _randw(sub_rng(0x201, seed), shp, True) + (2.0 if kind == "ComplexNorm" else 0.0)

        def make_seeds(seed):
            return [_randw(sub_rng(0x202, seed), shp, False)]
        return finish(mod, [sz], [so], set_inputs, make_seeds)

    # ---------------------------------------------------------------- aggregation / scaling
    if kind in ("PNorm", "KSFunction", "SoftMinMax"):
        n = cfg["n"]
        kw = {}
        if cfg["scaling"]:
            kw["scaling"] = pym.AggScaling(cfg["scaling"], damping=0.0)
        if cfg["active"]:
            a = cfg["act"]
            # the band only removes entries on the side opposite the approximated extreme: an active set that excludes every
            # entry (e.g. both extremes by value and the only middle entry too) is a user error, not an admissible input
            if cfg["par"] > 0:
                kw["active_set"] = pym.AggActiveSet(lower_rel=a[0], upper_rel=1.0, lower_amt=a[2], upper_amt=1.0)
            else:
                kw["active_set"] = pym.AggActiveSet(lower_rel=0.0, upper_rel=a[1], lower_amt=0.0, upper_amt=a[3])
        sx, sy = S("x"), S("y")
        par = cfg["par"]
        if kind == "PNorm":
            mod = pym.PNorm(sx, sy, p=par, **kw)
        elif kind == "KSFunction":
            mod = pym.KSFunction(sx, sy, rho=par, **kw)
        else:
            mod = pym.SoftMinMax(sx, sy, alpha=par, **kw)

        def set_inputs(seed):
            sx.state = sub_rng(0x201, seed).uniform(0.5, 2.0, n)

        def make_seeds(seed):
            return [float(sub_rng(0x202, seed).uniform(-1, 1))]
        return finish(mod, [sx], [sy], set_inputs, make_seeds)

    if kind == "Scaling":
        sx, sy = S("x"), S("y")
        kw = dict(scaling=cfg["scaling"])
        if cfg["mode"] == "min":
            kw["minval"] = cfg["val"]
        elif cfg["mode"] == "max":
            kw["maxval"] = cfg["val"]
        mod = pym.Scaling(sx, sy, **kw)

        def set_inputs(seed):
            r = sub_rng(0x201, seed)
            sx.state = r.uniform(0.5, 2.0, 3) if cfg["vec"] else float(r.uniform(0.5, 2.0))

        def make_seeds(seed):
            r = sub_rng(0x202, seed)
            return [r.uniform(-1, 1, 3) if cfg["vec"] else float(r.uniform(-1, 1))]
        return finish(mod, [sx], [sy], set_inputs, make_seeds)

    if kind == "EinSum":
        expr, n, m = cfg["expr"], cfg["n"], cfg["m"]
        terms = expr.split("->")[0].split(",")
        dims = {"i": n, "j": m, "k": n, "l": m}
        if expr == "ji,jk,kl->il":
            dims = {"j": n, "i": m, "k": n, "l": m}
        if expr in ("ii->", "i,ij,j->"):
            dims["j"] = n
        shapes = [tuple(dims[c] for c in t) for t in terms]
        sins = [S(f"a{i}") for i in range(len(terms))]
        so = S("o")
        mod = pym.EinSum(sins, so, expression=expr)
        cpl = cfg["cplx"][:len(terms)]

        def set_inputs(seed):
            r = sub_rng(0x201, seed)
            for s_, shp, c in zip(sins, shapes, cpl):
                s_.state = _randw(r, shp, c)

        def make_seeds(seed):
            o = so.state
            return [_randw(sub_rng(0x202, seed), np.shape(o), np.iscomplexobj(o))]
        return finish(mod, sins, [so], set_inputs, make_seeds)

    if kind == "ConcatSignal":
        sizes = cfg["sizes"]
        sins = [S(f"a{i}") for i in range(len(sizes))]
        so = S("o")
        mod = pym.ConcatSignal(sins, so)

        def set_inputs(seed):
            r = sub_rng(0x201, seed)
            for s_, k in zip(sins, sizes):
                s_.state = r.uniform(-1, 1, k)

        def make_seeds(seed):
            return [sub_rng(0x202, seed).uniform(-1, 1, sum(sizes))]
        return finish(mod, sins, [so], set_inputs, make_seeds)

    # ---------------------------------------------------------------- element operators
    if kind in ("Strain", "Stress", "ElementAverage", "ElementOperation", "NodalOperation", "ThermoMechanical"):
        dom = _domain(pym, cfg)
        si, so = S("i"), S("o")
        if kind == "Strain":
            mod, ndof = pym.Strain(si, so, dom, voigt=cfg["voigt"]), dom.dim
        elif kind == "Stress":
            mod, ndof = pym.Stress(si, so, dom, e_modulus=1.5, poisson_ratio=0.3, plane=cfg["plane"]), dom.dim
        elif kind == "ElementAverage":
            mod, ndof = pym.ElementAverage(si, so, dom), cfg["ndof"]
        elif kind == "ElementOperation":
            ndof = cfg["ndof"]
            if cfg["emshape"] == "vec":
                em = rng0.uniform(-1, 1, dom.elemnodes)
            elif cfg["emshape"] == "mat":
                em = rng0.uniform(-1, 1, (2, dom.elemnodes))
            else:
                em = rng0.uniform(-1, 1, (2, dom.elemnodes * ndof))
            mod = pym.ElementOperation(si, so, dom, em)
        elif kind == "NodalOperation":
            ndof = cfg["ndof"]
            em = rng0.uniform(-1, 1, dom.elemnodes * ndof) if cfg["emshape"] != "mat" else \
                rng0.uniform(-1, 1, (2, dom.elemnodes * ndof))
            mod = pym.NodalOperation(si, so, dom, em)
        else:
            mod, ndof = pym.ThermoMechanical(si, so, dom, e_modulus=1.2, poisson_ratio=0.3, alpha=1e-2, plane=cfg["plane"]), dom.dim
        if kind in ("NodalOperation", "ThermoMechanical"):
            matrows = (kind == "NodalOperation" and cfg["emshape"] == "mat")

            def set_inputs(seed):
                r = sub_rng(0x201, seed)
                si.state = r.uniform(-1, 1, (2, dom.nel)) if matrows else r.uniform(-1, 1, dom.nel)

            def make_seeds(seed):
                return [sub_rng(0x202, seed).uniform(-1, 1, np.shape(so.state))]
        else:
            def set_inputs(seed):
                si.state = sub_rng(0x201, seed).uniform(-1, 1, dom.nnodes * ndof)

            def make_seeds(seed):
                return [sub_rng(0x202, seed).uniform(-1, 1, np.shape(so.state))]
        return finish(mod, [si], [so], set_inputs, make_seeds)
    raise ValueError(kind)


# ---------------------------------------------------------------------------------------------------- value helpers
def dense(v, pym=None):
    """ numeric content of a state / sensitivity as ndarray (None stays None) """
    if v is None:
        return None
    if sps.issparse(v):
        return v.toarray()
    if hasattr(v, "todense") and not isinstance(v, np.ndarray):
        return np.asarray(v.todense())
    return np.asarray(v)


def snapshot(v):
    """ bit-exact fingerprint of a state """
    d = dense(v)
    if d is None:
        return None
    return (str(d.dtype), d.shape, d.tobytes())


def lincomb(a, w1, b, w2):
    if w1 is None and w2 is None:
        return None
    if w1 is None:
        return b * w2
    if w2 is None:
        return a * w1
    return a * w1 + b * w2


def copy_value(v):
    if v is None:
        return None
    if hasattr(v, "copy"):
        return v.copy()
    return v
