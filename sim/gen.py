"""Payload builders: every numeric payload of a case is described by small integers / strings, and is rebuilt from
that description by a pure function.  Matrices are diagonally dominant so their conditioning is known by construction.
"""
import numpy as np
import scipy.sparse as sps

from .core import sub_rng

CLASSES_REAL = ["general", "sym", "spd"]
CLASSES_CPLX = ["general", "herm", "hpd", "csym"]
PATTERNS = ["full", "banded", "block", "rowdec", "coldec", "bothdec", "diag", "random"]


def pattern_mask(n, pat, rng, symmetric):
    """ Boolean off-diagonal mask (n, n) """
    if isinstance(pat, dict) and "bits" in pat:
        # explicit enumeration: bit k of `bits` switches the k-th off-diagonal entry (row-major, diagonal skipped)
        M = np.zeros((n, n), dtype=bool)
        k = 0
        for i in range(n):
            for j in range(n):
                if i == j:
                    continue
                if symmetric and j < i:
                    continue
                M[i, j] = bool((pat["bits"] >> k) & 1)
                k += 1
        if symmetric:
            M = M | M.T
        return M
    M = np.ones((n, n), dtype=bool)
    if pat == "full":
        pass
    elif pat == "banded":
        bw = int(rng.integers(1, max(2, n // 2)))
        i, j = np.indices((n, n))
        M = np.abs(i - j) <= bw
    elif pat == "block":
        cut = int(rng.integers(1, n)) if n > 1 else 1
        M = np.zeros((n, n), dtype=bool)
        M[:cut, :cut] = True
        M[cut:, cut:] = True
    elif pat in ("rowdec", "coldec", "bothdec"):
        k = int(rng.integers(1, max(2, n // 2 + 1)))
        idx = rng.choice(n, size=min(k, n), replace=False)
        if pat in ("rowdec", "bothdec"):
            M[idx, :] = False
        if pat in ("coldec", "bothdec"):
            M[:, idx] = False
    elif pat == "diag":
        M = np.zeros((n, n), dtype=bool)
    elif pat == "random":
        M = rng.random((n, n)) < rng.uniform(0.2, 0.8)
    else:
        raise ValueError(pat)
    if symmetric:
        M = M & M.T if pat in ("rowdec", "coldec", "bothdec") else (np.triu(M) | np.triu(M).T)
    M = M.copy()
    np.fill_diagonal(M, False)
    return M


def make_matrix(desc):
    """ desc: {n, cls, cplx, seed, pattern, sparse: None|'csc'|'csr', scale} -> ndarray or scipy sparse matrix

    cls:  general | sym | spd | herm | hpd | csym | diag | tril | triu
    Strict diagonal dominance (factor >= 1.3) keeps every matrix non-singular with condition number O(10).
    """
    n, cls, cplx = int(desc["n"]), desc["cls"], bool(desc.get("cplx", False))
    rng = sub_rng(0xA11, desc["seed"])
    if cls == "blocks2":
        # structured symmetric matrix: block diagonal of [[a, b], [b, a]] blocks (spring pairs).  Its eigenvectors are
        # (1, 1)/sqrt2 and (1, -1)/sqrt2 per block: antisymmetric modes with a bit-exact zero mean entry.
        A = np.zeros((n, n))
        for k in range(0, n - 1, 2):
            a, b = float(rng.uniform(1.5, 3.0)), float(rng.uniform(0.2, 1.0)) * float(rng.choice([-1.0, 1.0]))
            A[k, k] = A[k + 1, k + 1] = a + 0.1 * (k // 2)
            A[k, k + 1] = A[k + 1, k] = b
        if n % 2:
            A[n - 1, n - 1] = float(rng.uniform(4.0, 5.0))
        A = A * float(desc.get("scale", 1.0))
        sp = desc.get("sparse")
        if sp in ("csc_full", "csr_full"):
            return full_structure(A, sp[:3])
        return sps.csc_matrix(A) if sp == "csc" else (sps.csr_matrix(A) if sp == "csr" else A)
    if cls == "hindef_posdiag":
        # Hermitian, same-sign diagonal, yet indefinite: ones-matrix scaled by c>1 off the diagonal + small perturbation.
        # Eigenvalues ~ 1-c (n-1 times) and 1+(n-1)c: non-singular, condition number O(n).  Cholesky fails *naturally*.
        c = float(rng.uniform(2.0, 3.0))
        off = np.full((n, n), c) + 0.1 * rng.uniform(-1, 1, (n, n))
        if cplx:
            off = off + 0.1j * rng.uniform(-1, 1, (n, n))
        off = np.triu(off, 1)
        A = off + off.conj().T + np.diag(rng.uniform(0.9, 1.1, n))
        A = A * (float(desc.get("scale", 1.0)) * (-1.0 if desc.get("negdiag") else 1.0))
        if not cplx:
            A = np.ascontiguousarray(A.real)
        sp = desc.get("sparse")
        if sp in ("csc_full", "csr_full"):
            return full_structure(A, sp[:3])
        return sps.csc_matrix(A) if sp == "csc" else (sps.csr_matrix(A) if sp == "csr" else A)
    symmetric = cls in ("sym", "spd", "herm", "hpd", "csym")
    pat = desc.get("pattern", "full")
    if cls == "diag":
        pat = "diag"
    M = pattern_mask(n, pat, rng, symmetric)
    off = rng.uniform(-1, 1, (n, n))
    if cplx:
        off = off + 1j * rng.uniform(-1, 1, (n, n))
    if cls in ("sym", "spd", "csym"):
        off = np.triu(off, 1)
        off = off + off.T
    elif cls in ("herm", "hpd"):
        off = np.triu(off, 1)
        off = off + off.conj().T
    elif cls == "tril":
        off = np.tril(off, -1)
    elif cls == "triu":
        off = np.triu(off, 1)
    off = off * M
    dom = np.maximum(np.abs(off).sum(axis=0), np.abs(off).sum(axis=1))
    mag = 1.3 * dom + rng.uniform(0.5, 1.5, n)
    if cls in ("spd", "hpd"):
        d = mag.astype(complex if cplx else float)
    elif cls in ("sym", "herm"):
        sg = rng.choice([-1.0, 1.0], size=n)
        if n > 1 and abs(sg.sum()) == n:
            sg[0] = -sg[0]       # make it indefinite
        d = (mag * sg).astype(complex if cplx else float)
    elif cplx and cls in ("general", "csym", "diag", "tril", "triu"):
        d = mag * np.exp(1j * rng.uniform(0, 2 * np.pi, n))
    else:
        d = mag * rng.choice([-1.0, 1.0], size=n)
    A = off + np.diag(d)
    A = A * float(desc.get("scale", 1.0))
    if not cplx:
        A = np.ascontiguousarray(A.real)
    sp = desc.get("sparse")
    if sp == "csc":
        return sps.csc_matrix(A)
    if sp == "csr":
        return sps.csr_matrix(A)
    if sp in ("csc_full", "csr_full"):
        return full_structure(A, sp[:3])
    return as_layout(A, desc.get("layout", "C"))


def as_layout(A, layout):
    """ memory layout of a dense matrix as a caller may hold it: C-ordered, Fortran-ordered (scipy.io.loadmat, LAPACK results) or
    a transposed view of a C-ordered array.  LAPACK wrappers work in place on Fortran-ordered data when allowed to overwrite. """
    if not isinstance(A, np.ndarray) or A.ndim != 2 or layout == "C":
        return A
    if layout == "F":
        return np.asfortranarray(A)
    return np.ascontiguousarray(A.T).T


def same_layout_copy(A):
    return A.copy(order="K") if isinstance(A, np.ndarray) else A.copy()


def full_structure(A, fmt):
    """ Sparse matrix that stores *every* entry, zeros included: the sparsity structure (indptr/indices) is identical for
    all matrices of one size, as in FE assembly on a fixed mesh where void elements contribute stored zeros. """
    n, m = A.shape
    if fmt == "csc":
        return sps.csc_matrix((np.asarray(A).T.ravel().copy(), np.tile(np.arange(n), m), np.arange(0, n * m + 1, n)), shape=(n, m))
    return sps.csr_matrix((np.asarray(A).ravel().copy(), np.tile(np.arange(m), n), np.arange(0, n * m + 1, m)), shape=(n, m))


def todense(A):
    return A.toarray() if sps.issparse(A) else np.asarray(A)


def rand_vec(seed, shape, cplx=False, lo=-1.0, hi=1.0):
    rng = sub_rng(0xB0B, seed)
    v = rng.uniform(lo, hi, shape)
    if cplx:
        v = v + 1j * rng.uniform(lo, hi, shape)
    return v


def c2j(z):
    return [float(np.real(z)), float(np.imag(z))]


def j2c(p):
    return complex(p[0], p[1]) if p[1] != 0 else float(p[0])


def opmat(A, trans):
    A = todense(A)
    if trans == "N":
        return A
    if trans == "T":
        return A.T
    if trans == "H":
        return A.conj().T
    raise ValueError(trans)


def rel_residual_cols(A, x, b, trans="N"):
    """ Per-column relative residual; columns with zero rhs return |x_j| (must vanish) """
    M = opmat(A, trans)
    X = np.asarray(x)
    B = np.asarray(b)
    X2 = X.reshape(X.shape[0], -1)
    B2 = B.reshape(B.shape[0], -1)
    r = M @ X2 - B2
    nb = np.linalg.norm(B2, axis=0)
    nr = np.linalg.norm(r, axis=0)
    out = np.where(nb > 0, nr / np.where(nb > 0, nb, 1.0), np.linalg.norm(X2, axis=0))
    return out


def in_span(basis_cols, v, rtol=1e-9):
    """ Is v in the complex span of the given columns?  basis_cols: list of 1-D arrays """
    if len(basis_cols) == 0:
        return np.linalg.norm(v) == 0
    Bm = np.stack([np.asarray(c, dtype=complex) for c in basis_cols], axis=1)
    v = np.asarray(v, dtype=complex)
    nv = np.linalg.norm(v)
    if nv == 0:
        return True
    coef, *_ = np.linalg.lstsq(Bm, v, rcond=None)
    return np.linalg.norm(Bm @ coef - v) <= rtol * nv
