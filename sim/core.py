"""Deterministic-simulation core: seed derivation, batch runner, shrinker, replay, evidence, findings.

One integer (VERIF_SEED) decides everything: run `idx` of property `pid` draws every choice from
numpy.random.Generator(PCG64(SeedSequence([VERIF_SEED, crc32(pid), idx]))).  Cases are plain JSON data that are
generated *before* execution; running a case is a pure function of (case, code under test).
"""
import faulthandler
import hashlib
import importlib
import json
import os
import signal
import subprocess
import sys
import time
import traceback
import zlib
from collections import Counter
from concurrent.futures import ProcessPoolExecutor, as_completed
from concurrent.futures.process import BrokenProcessPool
import multiprocessing as mp

import numpy as np

ROOT = os.environ.get("VERIF_ROOT", os.path.dirname(os.path.dirname(os.path.abspath(__file__))))
REPO = os.environ.get("VERIF_REPO", "/repo")

_real_time = time.time          # the harness keeps the real clock for its own budgets (seams replace time.time)
_real_perf = time.perf_counter


class RunTimeout(Exception):
    pass


def case_rng(seed, pid, idx):
    ss = np.random.SeedSequence([int(seed) & 0xFFFFFFFF, zlib.crc32(pid.encode()), int(idx)])
    return np.random.Generator(np.random.PCG64(ss))


def sub_rng(*ints):
    """ Generator for a payload that is described by small integer seeds inside a case """
    return np.random.Generator(np.random.PCG64(np.random.SeedSequence([int(i) & 0xFFFFFFFF for i in ints])))


def jdump(obj):
    return json.dumps(obj, sort_keys=True, separators=(",", ":"), default=_jdefault)


def _jdefault(o):
    if isinstance(o, (np.integer,)):
        return int(o)
    if isinstance(o, (np.floating,)):
        return float(o)
    if isinstance(o, (np.bool_,)):
        return bool(o)
    if isinstance(o, complex):
        return {"re": o.real, "im": o.imag}
    if isinstance(o, np.ndarray):
        return o.tolist()
    raise TypeError(f"not JSON serialisable: {type(o)}")


def digest(obj):
    return hashlib.sha256(jdump(obj).encode()).hexdigest()[:16]


def load_check(pid):
    mod = importlib.import_module(f"checks.{pid.lower()}")
    return mod


# ------------------------------------------------------------------------------------------------ single run
def _alarm_handler(signum, frame):
    raise RunTimeout()


def run_one(mod, case, wall_cap=None):
    """ Executes one case; never raises (harness exceptions are classified apart from violations) """
    t0 = _real_perf()
    out = dict(trace=[], nontrivial=False, steps=0, probes={}, faults={}, skipped={}, violations=[], harness_error=None,
               timeout=False)
    cap = wall_cap or getattr(mod, "RUN_WALL_CAP", 120)
    old = signal.signal(signal.SIGALRM, _alarm_handler)
    signal.setitimer(signal.ITIMER_REAL, cap)
    try:
        res = mod.run(case)
        out.update(res)
    except RunTimeout:
        out["timeout"] = True
    except Exception:
        out["harness_error"] = traceback.format_exc()
    finally:
        signal.setitimer(signal.ITIMER_REAL, 0)
        signal.signal(signal.SIGALRM, old)
    out["wall"] = _real_perf() - t0
    return out


def summarise(idx, case, res, keep_case):
    tr = res.get("trace", [])
    s = dict(idx=idx, th=hashlib.sha256("|".join(map(str, tr)).encode()).hexdigest()[:16],
             nt=bool(res.get("nontrivial")), steps=int(res.get("steps", 0)), probes=res.get("probes", {}),
             faults=res.get("faults", {}), skipped=res.get("skipped", {}), timeout=res.get("timeout", False),
             he=res.get("harness_error"), wall=res.get("wall", 0.0), viol=None,
             dh=hashlib.sha256(("|".join(map(str, tr)) + "#" + str(res.get("detail", ""))).encode()).hexdigest()[:16],
             margins=res.get("margins", {}))
    if res.get("violations"):
        s["viol"] = dict(violations=res["violations"], case=case)
    if keep_case:
        s["case"] = case
    return s


# ------------------------------------------------------------------------------------------------ workers
_WMOD = None


def _worker_init(pid):
    global _WMOD
    sys.setrecursionlimit(10000)
    _WMOD = load_check(pid)
    _WMOD.setup()


def _worker_chunk(args):
    pid, seed, tier, lo, hi, sample_idx, enum = args
    faulthandler.dump_traceback_later(getattr(_WMOD, "CHUNK_WALL_CAP", 900), exit=True)
    out = []
    try:
        for idx in range(lo, hi):
            if enum:
                case = _WMOD.enumerated_case(idx, tier)
            else:
                case = _WMOD.gen(case_rng(seed, pid, idx), idx, tier)
            res = run_one(_WMOD, case)
            out.append(summarise(idx, case, res, keep_case=(idx in sample_idx)))
    finally:
        faulthandler.cancel_dump_traceback_later()
    return out


# ------------------------------------------------------------------------------------------------ shrinking
def same_class(res, cls):
    return any(tuple(v["cls"]) == tuple(cls) for v in res.get("violations", []))


def _list_paths(case):
    """ Paths to lists of operations that may be shortened: case['ops'] and case['clients'][k]['ops'] """
    paths = []
    if isinstance(case.get("ops"), list):
        paths.append(("ops",))
    if isinstance(case.get("clients"), list):
        for k, c in enumerate(case["clients"]):
            if isinstance(c, dict) and isinstance(c.get("ops"), list):
                paths.append(("clients", k, "ops"))
    return paths


def _get(case, path):
    o = case
    for p in path:
        o = o[p]
    return o


def _with(case, path, value):
    c = json.loads(jdump(case))
    o = c
    for p in path[:-1]:
        o = o[p]
    o[path[-1]] = value
    return c


def shrink(mod, case, cls, budget_s=60.0):
    """ Delta debugging on the operation lists + check-specific simplifications, keeping the violation class """
    t_end = _real_time() + budget_s
    tried = 0

    def fails(c):
        nonlocal tried
        tried += 1
        r = run_one(mod, c, wall_cap=30)
        return same_class(r, cls)

    best = json.loads(jdump(case))
    improved = True
    while improved and _real_time() < t_end:
        improved = False
        # 1) drop whole clients
        if isinstance(best.get("clients"), list) and len(best["clients"]) > 1:
            for k in range(len(best["clients"]) - 1, -1, -1):
                if len(best["clients"]) <= 1:
                    break
                cand = json.loads(jdump(best))
                del cand["clients"][k]
                if "schedule" in cand:
                    cand["schedule"] = [s if s < k else s - 1 for s in cand["schedule"] if s != k]
                if fails(cand):
                    best, improved = cand, True
        # 2) ddmin on every op list
        for path in _list_paths(best):
            ops = _get(best, path)
            n = 2
            while len(ops) >= 1 and _real_time() < t_end:
                chunk = max(1, len(ops) // n)
                removed = False
                for start in range(0, len(ops), chunk):
                    cand_ops = ops[:start] + ops[start + chunk:]
                    cand = _with(best, path, cand_ops)
                    if fails(cand):
                        best, ops, removed, improved = cand, cand_ops, True, True
                        n = max(n - 1, 2)
                        break
                if not removed:
                    if chunk == 1:
                        break
                    n = min(len(ops), n * 2)
        # 3) check-specific simplifications (smaller sizes, simpler payloads)
        if hasattr(mod, "simplify"):
            for cand in mod.simplify(best):
                if _real_time() >= t_end:
                    break
                if fails(cand):
                    best, improved = cand, True
                    break
    return best, tried


# ------------------------------------------------------------------------------------------------ findings
def load_findings():
    p = os.path.join(ROOT, "known_findings.json")
    if not os.path.exists(p):
        return []
    with open(p) as f:
        return json.load(f).get("findings", [])


def match_finding(findings, pid, viol):
    """ Only *open* findings suppress; a match needs the same class and all listed structural features """
    for fd in findings:
        if fd.get("property") != pid or fd.get("status") != "open":
            continue
        m = fd.get("match", {})
        if "cls" in m and list(m["cls"]) != list(viol["cls"]):
            continue
        feats = set(viol.get("features", []))
        if not set(m.get("features_all", [])) <= feats:
            continue
        if any(f in feats for f in m.get("features_none", [])):
            continue
        return fd
    return None


# ------------------------------------------------------------------------------------------------ replay
def write_replay(pid, case, viol, seed=None, idx=None, note=None):
    d = os.path.join(ROOT, "replays")
    os.makedirs(d, exist_ok=True)
    payload = dict(property=pid, cls=list(viol["cls"]), msg=viol.get("msg", ""), features=viol.get("features", []),
                   case=case, found_with=dict(seed=seed, idx=idx), note=note)
    path = os.path.join(d, f"{pid}-{digest(dict(cls=viol['cls'], case=case))}.json")
    with open(path, "w") as f:
        f.write(json.dumps(json.loads(jdump(payload)), indent=1, sort_keys=True))
    return path


def replay_in_fresh_interpreter(pid, path, timeout=300):
    """ Re-executes a replay file in a fresh interpreter; returns list of violation classes it reports """
    cmd = [os.path.join(ROOT, "bin", "check"), pid, "--replay", path, "--json"]
    try:
        p = subprocess.run(cmd, capture_output=True, text=True, timeout=timeout)
    except subprocess.TimeoutExpired:
        return None
    for line in p.stdout.splitlines():
        if line.startswith("REPLAY-JSON "):
            return json.loads(line[len("REPLAY-JSON "):])
    return None


def do_replay(pid, path, as_json=False):
    mod = load_check(pid)
    mod.setup()
    with open(path) as f:
        payload = json.load(f)
    case = payload["case"] if "case" in payload and "property" in payload else payload
    res = run_one(mod, case)
    if as_json:
        print("REPLAY-JSON " + jdump(dict(classes=[v["cls"] for v in res["violations"]],
                                          msgs=[v.get("msg", "") for v in res["violations"]],
                                          harness_error=res["harness_error"], timeout=res["timeout"])))
        return 0
    if res["harness_error"]:
        print("HARNESS-ERROR during replay:\n" + res["harness_error"])
        return 2
    if res["timeout"]:
        print("HARNESS-ERROR replay timed out")
        return 2
    findings = load_findings()
    rc = 0
    for v in res["violations"]:
        fd = match_finding(findings, pid, v)
        if fd is not None:
            print(f"KNOWN-FINDING: property={pid} {fd['what']}")
        else:
            print(f"  class={v['cls']} :: {v.get('msg', '')}")
            rc = 1
    if rc:
        print(f"VIOLATION property={pid} replay={path}")
    else:
        print(f"replay of {path}: no (unlisted) violation")
    return rc


# ------------------------------------------------------------------------------------------------ batch
def run_batch(pid, tier, seed, runs=None, workers=None, budget_s=None, verbose=True):
    t0 = _real_time()
    mod = load_check(pid)
    cfg = dict(mod.TIERS[tier])
    if runs is not None:
        cfg["runs"] = runs
        cfg.pop("budget_s", None)
    if budget_s is None and tier == "thorough":
        budget_s = float(os.environ.get("VERIF_BUDGET_S", cfg.get("budget_s", 480)))
    if runs is not None:
        budget_s = None
    workers = workers or int(os.environ.get("VERIF_WORKERS", min(16, os.cpu_count() or 1)))
    chunk = cfg.get("chunk", 50)
    n_fixed = cfg.get("runs")
    max_runs = cfg.get("max_runs", n_fixed)
    n_enum = mod.enumerated_count(tier) if hasattr(mod, "enumerated_count") else 0
    sample_idx = set(range(0, 3))

    agg = dict(evals=0, steps=0, traces={}, probes=Counter(), faults=Counter(), skipped=Counter(), timeouts=0,
               harness_errors=[], viols=[], samples=[], wall_runs=0.0, enum_evals=0, margins={}, digests={})

    def absorb(summaries, enum=False):
        for s in summaries:
            agg["evals"] += 1
            agg["digests"][("e" if enum else "r", s["idx"])] = s["dh"] + ("V" if s["viol"] else "")
            if enum:
                agg["enum_evals"] += 1
            agg["steps"] += s["steps"]
            agg["wall_runs"] += s["wall"]
            if s["nt"]:
                agg["traces"][s["th"]] = agg["traces"].get(s["th"], 0) + 1
            agg["probes"].update(s["probes"])
            agg["faults"].update(s["faults"])
            agg["skipped"].update(s["skipped"])
            for k, v in s.get("margins", {}).items():
                agg["margins"][k] = max(agg["margins"].get(k, 0.0), v)
            if s["timeout"]:
                agg["timeouts"] += 1
            if s["he"]:
                agg["harness_errors"].append((s["idx"], s["he"]))
            if s["viol"]:
                agg["viols"].append((s["idx"], enum, s["viol"]))
            if "case" in s and len(agg["samples"]) < 3 and not enum:
                agg["samples"].append(s["case"])

    ctx = mp.get_context("fork")
    broken = None
    next_idx = 0
    try:
        with ProcessPoolExecutor(max_workers=workers, mp_context=ctx, initializer=_worker_init, initargs=(pid,)) as ex:
            pending = {}
            # enumerated (exhaustive sub-sweep) cases first
            for lo in range(0, n_enum, chunk):
                f = ex.submit(_worker_chunk, (pid, seed, tier, lo, min(lo + chunk, n_enum), set(), True))
                pending[f] = ("enum", lo)

            def submit_more():
                nonlocal next_idx
                while len([1 for v in pending.values() if v[0] == "rand"]) < workers * 2:
                    if max_runs is not None and next_idx >= max_runs:
                        return
                    if budget_s is not None and _real_time() - t0 > budget_s:
                        return
                    hi = next_idx + chunk if max_runs is None else min(next_idx + chunk, max_runs)
                    f = ex.submit(_worker_chunk, (pid, seed, tier, next_idx, hi, sample_idx, False))
                    pending[f] = ("rand", next_idx)
                    next_idx = hi

            submit_more()
            while pending:
                done = next(as_completed(list(pending.keys())))
                kind, lo = pending.pop(done)
                absorb(done.result(), enum=(kind == "enum"))
                # stop early when many distinct violation classes are already collected
                if len({tuple(v["cls"]) for _, _, vv in agg["viols"] for v in vv["violations"]}) >= 8:
                    for f in pending:
                        f.cancel()
                    max_runs = next_idx
                submit_more()
    except BrokenProcessPool as e:
        broken = f"worker process died (hang cap or crash): {e}"

    wall = _real_time() - t0
    return mod, cfg, agg, wall, broken, workers


def decide(pid, tier, seed, mod, agg, broken, verbose=True):
    """ Turns collected violations into VIOLATION / KNOWN-FINDING lines (shrinks + replays first) """
    findings = load_findings()
    lines, rc = [], 0
    n_unlisted = 0
    if broken:
        lines.append(f"HARNESS-ERROR property={pid} {broken}")
        return lines, 2, 0, []
    # group by class, keep the earliest run per class; violations matching an open finding are only announced
    by_cls = {}
    known_printed = set()
    for idx, enum, vv in sorted(agg["viols"], key=lambda t: (t[1], t[0])):
        for v in vv["violations"]:
            fd = match_finding(findings, pid, v)
            if fd is not None:
                if fd["id"] not in known_printed:
                    known_printed.add(fd["id"])
                    lines.append(f"KNOWN-FINDING: property={pid} {fd['what']}")
                continue
            key = tuple(v["cls"])
            if key not in by_cls:
                by_cls[key] = (idx, enum, v, vv["case"])
    details = []
    mod.setup()
    shrink_budget = float(os.environ.get("VERIF_SHRINK_S", 45))
    for key, (idx, enum, v, case) in list(by_cls.items())[:12]:
        small, tried = shrink(mod, case, v["cls"], budget_s=shrink_budget)
        rsmall = run_one(mod, small)
        vsmall = next((x for x in rsmall["violations"] if tuple(x["cls"]) == tuple(v["cls"])), v)
        # shrinking may have moved the case into a listed finding: then it is that finding
        fd = match_finding(findings, pid, vsmall)
        if fd is not None and match_finding(findings, pid, v) is None:
            # keep the unshrunk case: the original structural features are the ones not listed
            small, vsmall = case, v
        path = write_replay(pid, small, vsmall, seed=seed, idx=idx, note=f"shrunk with {tried} re-executions")
        rep = replay_in_fresh_interpreter(pid, path)
        ok = rep is not None and any(tuple(c) == tuple(v["cls"]) for c in rep.get("classes", []))
        if not ok:
            # fall back to the unshrunk case
            path0 = write_replay(pid, case, v, seed=seed, idx=idx, note="unshrunk (shrunk case did not replay)")
            rep0 = replay_in_fresh_interpreter(pid, path0)
            ok0 = rep0 is not None and any(tuple(c) == tuple(v["cls"]) for c in rep0.get("classes", []))
            if ok0:
                path, ok = path0, True
        if ok:
            n_unlisted += 1
            rc = 1
            lines.append(f"  class={list(v['cls'])} idx={idx} :: {vsmall.get('msg', v.get('msg', ''))}")
            lines.append(f"VIOLATION property={pid} replay={path}")
            details.append(dict(cls=list(v["cls"]), idx=idx, replay=path, msg=vsmall.get("msg", "")))
        else:
            lines.append(f"HARNESS-ERROR property={pid} violation class {list(v['cls'])} at idx={idx} did not reproduce "
                         f"in a fresh interpreter (nondeterminism in harness?)")
            if rc == 0:
                rc = 2
    return lines, rc, n_unlisted, details


def write_evidence(pid, tier, seed, mod, cfg, agg, wall, workers, n_viol, details):
    os.makedirs(os.path.join(ROOT, "evidence"), exist_ok=True)
    distinct = len(agg["traces"])
    probes = {k: int(v) for k, v in sorted(agg["probes"].items())}
    planned = list(getattr(mod, "PROBES", []))
    for k in planned:
        probes.setdefault(k, 0)
    faults = {k: int(v) for k, v in sorted(agg["faults"].items())}
    for k in getattr(mod, "FAULT_KINDS", []):
        faults.setdefault(k, 0)
    cov = dict(
        evaluations=int(agg["evals"]),
        distinct_nontrivial=int(distinct),
        rule=mod.RULE,
        samples=agg["samples"][:3] if agg["samples"] else [],
        exhaustive=False,
        simulated_steps=int(agg["steps"]),
        runs_per_hour=int(agg["evals"] / max(wall, 1e-9) * 3600),
        seeds="SeedSequence([VERIF_SEED=%d, crc32(%s), idx]) for idx in 0..%d" % (seed, pid, max(agg["evals"] - agg["enum_evals"] - 1, 0)),
        enumerated_cases=int(agg["enum_evals"]),
        fault_kinds_fired=faults,
        rare_branch_probes=probes,
        probes_at_zero=[k for k, v in probes.items() if v == 0],
        skipped_comparisons={k: int(v) for k, v in sorted(agg["skipped"].items())},
        inconclusive_timeouts=int(agg["timeouts"]),
        tolerance_margins_max_observed=agg["margins"],
        workers=workers,
        components=getattr(mod, "COMPONENTS", {}),
        not_exercised=getattr(mod, "NOT_EXERCISED", []),
        violation_details=details,
    )
    if hasattr(mod, "evidence_extra"):
        cov.update(mod.evidence_extra(tier, agg))
    ev = dict(property_id=pid, tier=tier, seed=int(seed), level=getattr(mod, "LEVEL", "exploration"), coverage=cov,
              assumptions=list(getattr(mod, "ASSUMPTIONS", [])), wall_s=round(wall, 3), violations=int(n_viol))
    path = os.path.join(ROOT, "evidence", f"{pid}.json")
    tmp = path + ".tmp"
    with open(tmp, "w") as f:
        f.write(json.dumps(json.loads(jdump(ev)), indent=1, sort_keys=True))
    os.replace(tmp, path)
    return path
