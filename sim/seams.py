"""Seams: every source of nondeterminism / fault the properties depend on, installed at stdlib / NumPy / SciPy level
*before* pymoto is imported.  pyMOTO's own source carries no hooks.

  rng       numpy.random.default_rng(None)  -> generator spawned from the current run's seed (ARPACK start vector);
            numpy.random.seed(k) is called by harnesses before library calls that use the legacy global generator
  clock     time.time / time.perf_counter   -> simulated clock (jumps are a fault kind)
  cholesky  scipy.linalg.cholesky           -> raises LinAlgError on armed calls (forces the LDL backup path)
  fs        builtins.open / io.open         -> in-memory files below a virtual root, ENOSPC / EIO injection
  eig       scipy.sparse.linalg.eigsh/eigs  -> counted only
"""
import builtins
import errno
import io
import os
import sys
import time

import numpy as np

REPO = os.environ.get("VERIF_REPO", "/repo")

_installed = False
_orig = {}

state = {
    "rng_seed": [0],          # list of ints; default_rng(None) -> SeedSequence(rng_seed + [counter])
    "rng_counter": 0,
    "rng_none_calls": 0,
    "clock": 1_000_000.0,
    "clock_script": None,     # list of increments (may be negative) consumed cyclically per read
    "clock_reads": 0,
    "clock_i": 0,
    "chol_arm": 0,            # number of upcoming cholesky calls that must fail
    "chol_calls": 0,
    "chol_forced": 0,
    "chol_natural": 0,
    "eig_calls": 0,
}


def reset_run(seed_ints):
    state["rng_seed"] = [int(s) & 0xFFFFFFFF for s in seed_ints]
    state["rng_counter"] = 0
    state["rng_none_calls"] = 0
    state["clock"] = 1_000_000.0
    state["clock_script"] = None
    state["clock_reads"] = 0
    state["clock_i"] = 0
    state["chol_arm"] = 0
    state["chol_calls"] = 0
    state["chol_forced"] = 0
    state["chol_natural"] = 0
    state["eig_calls"] = 0
    if FS is not None:
        FS.reset()


# ------------------------------------------------------------------------------------------- rng
def _default_rng(seed=None, *a, **k):
    if seed is None:
        state["rng_none_calls"] += 1
        state["rng_counter"] += 1
        ss = np.random.SeedSequence(state["rng_seed"] + [state["rng_counter"]])
        return _orig["default_rng"](ss)
    return _orig["default_rng"](seed, *a, **k)


# ------------------------------------------------------------------------------------------- clock
def _sim_clock():
    state["clock_reads"] += 1
    sc = state["clock_script"]
    if sc:
        state["clock"] += sc[state["clock_i"] % len(sc)]
        state["clock_i"] += 1
    else:
        state["clock"] += 1e-3
    return state["clock"]


# ------------------------------------------------------------------------------------------- cholesky
def _cholesky(*a, **k):
    state["chol_calls"] += 1
    if state["chol_arm"] > 0:
        state["chol_arm"] -= 1
        state["chol_forced"] += 1
        raise np.linalg.LinAlgError("injected: simulated Cholesky breakdown")
    try:
        return _orig["cholesky"](*a, **k)
    except np.linalg.LinAlgError:
        state["chol_natural"] += 1
        raise


# ------------------------------------------------------------------------------------------- file system
class _MemFile:
    def __init__(self, fs, path, mode):
        self.fs, self.path, self.mode = fs, path, mode
        self.binary = "b" in mode
        self.closed = False
        self.name = path
        if "w" in mode:
            fs.files[path] = b""
        elif "a" in mode:
            fs.files.setdefault(path, b"")
        elif path not in fs.files:
            raise FileNotFoundError(errno.ENOENT, "No such file (SimFS)", path)

    def write(self, data):
        fs = self.fs
        fs.write_calls += 1
        raw = data if self.binary else data.encode("utf-8")
        if fs.fail_at_write is not None and fs.write_calls - 1 == fs.fail_at_write:
            fs.faults_fired += 1
            if fs.fail_kind == "short" and len(raw) > 1:
                fs.files[self.path] += raw[:len(raw) // 2]
            raise OSError(errno.ENOSPC, "injected: No space left on device (SimFS)", self.path)
        fs.files[self.path] += raw
        return len(data)

    def read(self, n=-1):
        raw = self.fs.files[self.path]
        return raw if self.binary else raw.decode("utf-8")

    def flush(self):
        pass

    def close(self):
        self.closed = True

    def __enter__(self):
        return self

    def __exit__(self, *exc):
        self.close()
        return False


class SimFS:
    """ In-memory files for every path below `root` (a real, empty directory so that Path.mkdir keeps working) """
    def __init__(self, root):
        self.root = os.path.abspath(root)
        self.reset()

    def reset(self):
        self.files = {}
        self.write_calls = 0
        self.open_calls = 0
        self.fail_at_write = None
        self.fail_kind = "enospc"
        self.fail_at_open = None
        self.faults_fired = 0

    def handles(self, path):
        try:
            p = os.path.abspath(os.fspath(path))
        except TypeError:
            return False
        return p == self.root or p.startswith(self.root + os.sep)

    def open(self, path, mode="r", *a, **k):
        p = os.path.abspath(os.fspath(path))
        self.open_calls += 1
        if self.fail_at_open is not None and self.open_calls - 1 == self.fail_at_open:
            self.faults_fired += 1
            raise OSError(errno.EIO, "injected: Input/output error (SimFS)", p)
        return _MemFile(self, p, mode)


FS = None


def _open(file, mode="r", *a, **k):
    if FS is not None and isinstance(file, (str, bytes, os.PathLike)) and FS.handles(file):
        return FS.open(file, mode, *a, **k)
    return _orig["open"](file, mode, *a, **k)


def read_file(path):
    """ Oracle-side read: through the simulated view, falling back to the real file if a refactor bypassed the seam """
    p = os.path.abspath(path)
    if FS is not None and p in FS.files:
        return FS.files[p]
    if os.path.exists(p):
        with _orig["open"](p, "rb") as f:
            return f.read()
    return None


def install(fs_root=None, clock=True):
    """ Must be called before `import pymoto` """
    global _installed, FS
    if _installed:
        return
    _installed = True
    # rng
    _orig["default_rng"] = np.random.default_rng
    np.random.default_rng = _default_rng
    # clock
    _orig["time"] = time.time
    _orig["perf_counter"] = time.perf_counter
    if clock:
        time.time = _sim_clock
        time.perf_counter = _sim_clock
    # cholesky
    import scipy.linalg
    _orig["cholesky"] = scipy.linalg.cholesky
    scipy.linalg.cholesky = _cholesky
    # fs
    _orig["open"] = builtins.open
    if fs_root is not None:
        os.makedirs(fs_root, exist_ok=True)
        FS = SimFS(fs_root)
        builtins.open = _open
        io.open = _open
    # eig counters
    import scipy.sparse.linalg as spsla
    for nm in ("eigsh", "eigs"):
        _orig[nm] = getattr(spsla, nm)

        def mk(nm):
            def wrapped(*a, **k):
                state["eig_calls"] += 1
                return _orig[nm](*a, **k)
            wrapped.__name__ = nm
            return wrapped
        setattr(spsla, nm, mk(nm))


def import_pymoto():
    """ Imports pymoto from the *current working tree* of the repository (never the stale build/lib copy) """
    sys.dont_write_bytecode = True
    if REPO not in sys.path:
        sys.path.insert(0, REPO)
    import pymoto
    assert os.path.abspath(pymoto.__file__).startswith(os.path.join(os.path.abspath(REPO), "pymoto") + os.sep), \
        f"pymoto imported from {pymoto.__file__}, expected {REPO}/pymoto"
    return pymoto


def seam_fired_counts():
    return dict(arpack_start=state["rng_none_calls"], clock_reads=state["clock_reads"],
                cholesky_forced=state["chol_forced"], cholesky_natural=state["chol_natural"],
                eig_calls=state["eig_calls"])
